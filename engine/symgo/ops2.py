# Maps, iteration, calls, builtins, defer/panic/recover, channels.
import itertools
import z3
from .values import *
from .engine import *
from .ops import Ops, K, Builtin, lex_lt


class Ops2(Ops):
    # ---------- maps ----------
    def map_find(self, st, m, key, kt):
        """returns index of matching entry or -1 (forking on symbolic equality)"""
        mv = self.cell_get(st, m.cell)
        conds = []
        none = True
        for (k, v) in mv.entries:
            c = self.eq(st, k, key, kt)
            if c is True:
                return mv, len(conds)
            conds.append(c)
        if all(c is False for c in conds):
            return mv, -1
        rest = True
        alts = []
        for c in conds:
            alts.append(c)
            rest = and_(rest, not_(c))
        alts.append(rest)
        i = self.choose(st, alts)
        if i == len(conds):
            return mv, -1
        return mv, i

    def op_Lookup(self, st, f, ins):
        x = self.val(f, ins['x'])
        key = self.val(f, ins['i'])
        t = self.T(ins['xt'])
        if isinstance(x, Poison) or isinstance(key, Poison):
            f.locals[ins['r']] = Poison('lookup')
            return
        if t['cls'] == 'string':
            el = str_elems(x)
            i = self.bounds(st, key, len(el), 64, True, ins.get('pos', ''))
            f.locals[ins['r']] = el[i] if isinstance(i, int) else self.sym_select(el, i, 8)
            return
        if x is None:
            v, ok = self.zero(t['elem']), False
        else:
            mv, i = self.map_find(st, x, key, t['key'])
            if i < 0:
                v, ok = self.zero(t['elem']), False
            else:
                v, ok = mv.entries[i][1], True
        f.locals[ins['r']] = (v, ok) if ins['commaok'] else v

    def op_MapUpdate(self, st, f, ins):
        m = self.val(f, ins['m'])
        key = self.val(f, ins['k'])
        x = self.val(f, ins['x'])
        if m is None:
            raise GoPanic('nil-map-write', None, ins.get('pos', ''))
        if isinstance(m, (Poison, Opaque)):
            raise Unsupported('update of opaque map')
        kt = ins['kt']
        mv, i = self.map_find(st, m, key, kt)
        if i < 0:
            ent = mv.entries + ((key, x),)
        else:
            ent = mv.entries[:i] + ((mv.entries[i][0], x),) + mv.entries[i + 1:]
        self.cell_set(st, m.cell, MapVal(ent))

    def map_key_type(self, f, ins):
        kt = ins.get('kt')
        if kt is None:
            # type of the map operand: find from the function's value types
            kt = ins['kt'] = self.local_type(f.fn, ins['m'])
        return kt

    def local_type(self, fn, o):
        """static type id of the key of the map held in operand o"""
        vt = fn.get('vtypes')
        if vt is None:
            vt = {}
            for i, t in enumerate(fn.get('ptypes') or []):
                vt[i] = t
            for b in fn['blocks']:
                for ins in b:
                    if 'r' in ins:
                        vt[ins['r']] = ins['t']
            fn['vtypes'] = vt
        if isinstance(o, int):
            mt = self.T(vt[o]) if o in vt else None
            if mt is None:
                raise Unsupported('map operand type unknown (freevar)')
            return mt['key']
        raise Unsupported('map operand is a constant')

    def map_delete(self, st, m, key, kt):
        if m is None:
            return
        mv, i = self.map_find(st, m, key, kt)
        if i >= 0:
            self.cell_set(st, m.cell, MapVal(mv.entries[:i] + mv.entries[i + 1:]))

    def op_Range(self, st, f, ins):
        x = self.val(f, ins['x'])
        t = self.T(ins['xt'])
        if t['cls'] == 'string':
            if not isinstance(x, bytes):
                raise Unsupported('range over symbolic string')
            items = []
            s = x.decode('utf-8', 'replace')
            off = 0
            for ch in s:
                items.append((off, ord(ch)))
                off += len(ch.encode('utf-8'))
            f.locals[ins['r']] = MapIter('str', tuple(items), 0)
            return
        if x is None:
            f.locals[ins['r']] = MapIter('map', (), 0, None)
            return
        mv = self.cell_get(st, x.cell)
        n = len(mv.entries)
        if n <= 1 or self.opts.get('map_order') == 'insertion':
            order = tuple(range(n))
        else:
            if n <= self.opts.get('map_perm_max', 3):
                orders = list(itertools.permutations(range(n)))
            else:
                # beyond 3 entries: insertion order, its reverse and one rotation (chosen by the seed)
                r = 1 + (self.opts.get('seed', 0) % (n - 1))
                orders = [tuple(range(n)), tuple(reversed(range(n))), tuple(range(r, n)) + tuple(range(r))]
            k = self.choose(st, [True] * len(orders), maporder=True)
            st.maporder = True
            order = orders[k]
            self.stats['map_orders'] = self.stats.get('map_orders', 0) + 1
        items = tuple(mv.entries[i] for i in order)
        f.locals[ins['r']] = MapIter('map', items, 0, (x, t['key']))

    def op_Next(self, st, f, ins):
        it = self.val(f, ins['x'])
        if it.kind == 'str':
            if it.pos >= len(it.items):
                f.locals[ins['r']] = (False, 0, 0)
            else:
                k, v = it.items[it.pos]
                f.locals[ins['r']] = (True, k, v)
                f.locals[ins['x']] = MapIter('str', it.items, it.pos + 1)
            return
        pos = it.pos
        # skip entries deleted during iteration (concrete key identity only)
        while pos < len(it.items):
            k, v = it.items[pos]
            m, kt = it.ref
            mv = self.cell_get(st, m.cell)
            found = None
            for (k2, v2) in mv.entries:
                if k2 is k:
                    found = v2
                    break
                try:
                    c = self.eq(st, k2, k, kt)
                except Unsupported:
                    c = False
                if c is True:
                    found = v2
                    break
            else:
                # symbolic keys: fall back to snapshot semantics when undecidable
                anysym = any(self.eq(st, k2, k, kt) is not False for (k2, _) in mv.entries)
                if anysym:
                    found = v
                else:
                    pos += 1
                    continue
            t = self.T(ins['t'])
            f.locals[ins['r']] = (True, k, found)
            f.locals[ins['x']] = MapIter('map', it.items, pos + 1, it.ref)
            return
        tt = self.T(ins['t'])['tuple']
        f.locals[ins['r']] = (False, self.zero(tt[1]), self.zero(tt[2]))
        f.locals[ins['x']] = MapIter('map', it.items, pos, it.ref)

    # ---------- calls ----------
    def op_Call(self, st, f, ins):
        return self.call_common(st, f, ins, 'call')

    def op_Defer(self, st, f, ins):
        callee, args = self.resolve_call(st, f, ins)
        f.defers.append((callee, args, ins))

    def op_Go(self, st, f, ins):
        # goroutines are run to completion at the spawn point (the "eager" schedule);
        # blocking operations inside abort the path as unsupported.
        # After verifLazyGoroutines(true) they are parked instead and run, in spawn order, at the next
        # sync.WaitGroup.Wait (the "lazy" schedule: everything the spawner does before it joins
        # happens first). The two schedules are the extremes of the interleavings a join allows.
        if st.ghost.get('go_lazy'):
            callee, args = self.resolve_call(st, f, ins)
            st.ghost['go_pending'] = st.ghost.get('go_pending', ()) + ((callee, tuple(args), ins),)
            return None
        return self.call_common(st, f, ins, 'go')

    def resolve_call(self, st, f, ins):
        args = [self.val(f, a) for a in ins['args']]
        if ins.get('invoke'):
            x = self.val(f, ins['x'])
            return ('invoke', x), args
        return self.val(f, ins['fn']), args

    def call_common(self, st, f, ins, mode):
        callee, args = self.resolve_call(st, f, ins)
        dest = ins.get('r') if mode == 'call' else None
        return self.invoke(st, f, callee, args, dest, ins, advance=True, mode=mode)

    def invoke(self, st, f, callee, args, dest, ins, advance, mode='call'):
        """perform a call; returns 'ctl' if ip was handled"""
        if isinstance(callee, tuple) and callee[0] == 'invoke':
            x = callee[1]
            itname = self.T(ins['it'])['s']
            hook = self.iface_models.get(itname)
            if hook is not None:
                self.models_used.add('iface:' + itname)
                r = hook(self, st, x, ins['mname'], args, ins)
                if dest is not None:
                    f.locals[dest] = r
                return None
            if x is None:
                raise GoPanic('nil-deref', None, ins.get('pos', '') + ' (nil interface method call)')
            if isinstance(x, Poison):
                if dest is not None:
                    f.locals[dest] = x
                return None
            if isinstance(x, Opaque):
                raise Unsupported('method %s on opaque value %s' % (ins['mname'], x.name))
            fid = self.srv.method(x.t, ins['mname'], ins.get('mpkg'))
            if fid < 0:
                raise Unsupported('no method %s on %s' % (ins['mname'], self.T(x.t)['s']))
            callee = Closure(fid, ())
            args = [x.v] + args
        if isinstance(callee, Builtin):
            r = self.builtin(st, f, callee.name, args, ins)
            if dest is not None:
                f.locals[dest] = r
            return None
        if callee is None:
            raise GoPanic('nil-deref', None, ins.get('pos', '') + ' (nil func call)')
        if isinstance(callee, (Poison, Opaque)):
            if self.lenient:
                if dest is not None:
                    f.locals[dest] = Poison('call')
                return None
            raise Unsupported('call of opaque function')
        fn = self.get_func(callee.fn)
        name = fn['name']
        stub = self.stubs.get(name)
        if stub is not None:
            self.stubs_used.add(name)
            fn = self.get_func(self.srv.lookup(stub))
            name = fn['name']
        model = self.models.get(name)
        if model is None and self.noop_prefixes and name.startswith(self.noop_prefixes):
            self.models_used.add('noop:' + name)
            if dest is not None:
                res = ins.get('res') or []
                f.locals[dest] = None if not res else (self.zero(res[0]) if len(res) == 1 else tuple(self.zero(t) for t in res))
            return None
        if model is None and not fn.get('hasbody') and fn['short'].startswith('verif'):
            model = self.api_call
        if model is None and fn.get('pkg') in self.pkg_models:
            model = self.pkg_models[fn['pkg']]
        if model is not None:
            self.models_used.add(name)
            r = model(self, st, args, ins, fn)
            if isinstance(r, Redirect):
                if r.stay:
                    # run r.callee, then execute the current instruction again
                    return self.invoke(st, f, r.callee, r.args, None, r.ins or ins, False, 'go')
                return self.invoke(st, f, r.callee, r.args, dest, ins, advance, mode)
            if r is not NotImplemented:
                if dest is not None:
                    f.locals[dest] = r
                return None
        if not fn.get('hasbody'):
            raise Unsupported('call to %s: no body and no model' % name)
        if len(st.frames) > self.opts.get('max_depth', 120):
            raise PathEnd('unwind', 'recursion depth at ' + name)
        if name not in self.funcs_encoded:
            self.funcs_encoded[name] = fn['ninstr']
        nf = Frame(fn, fn['nlocals'])
        np = fn['nparams']
        if len(args) != np:
            raise Unsupported('arity mismatch calling %s: %d vs %d' % (name, len(args), np))
        nf.locals[:np] = args
        if fn['nfree']:
            nf.locals[np:np + fn['nfree']] = list(callee.binds)
        nf.dest = dest
        if advance:
            f.ip += 1
        st.frames.append(nf)
        return 'ctl'

    def op_RunDefers(self, st, f, ins):
        if f.defers:
            callee, args, dins = f.defers.pop()
            r = self.invoke(st, f, callee, args, None, dins, advance=False)
            return 'ctl'   # re-execute RunDefers until the list is empty
        return None

    # ---------- builtins ----------
    def builtin(self, st, f, name, args, ins):
        if name == 'len':
            x = args[0]
            if isinstance(x, Slice):
                return x.len
            if isinstance(x, (bytes,)):
                return len(x)
            if isinstance(x, SymStr):
                return len(x.elems)
            if isinstance(x, MapRef):
                return len(self.cell_get(st, x.cell).entries)
            if x is None:
                return 0
            if isinstance(x, ChanRef):
                return len(self.cell_get(st, x.cell).q)
            if isinstance(x, tuple):
                return len(x)
            if isinstance(x, Ptr):
                return len(self.load(st, x))
            raise Unsupported('len of %r' % (x,))
        if name == 'cap':
            x = args[0]
            if isinstance(x, Slice):
                return x.cap
            if isinstance(x, ChanRef):
                return self.cell_get(st, x.cell).cap
            if x is None:
                return 0
            if isinstance(x, tuple):
                return len(x)
            raise Unsupported('cap')
        if name == 'append':
            return self.bi_append(st, args[0], args[1], ins)
        if name == 'copy':
            return self.bi_copy(st, args[0], args[1])
        if name == 'delete':
            kt = self.T(ins['argt'][0])['key']
            self.map_delete(st, args[0], args[1], kt)
            return None
        if name in ('print', 'println'):
            return None
        if name == 'recover':
            # valid when called by a deferred function while its caller unwinds
            if st.panic is not None and len(st.frames) >= 2 and st.frames[-2].unwinding and f.deferred_by:
                p = st.panic
                st.panic = None
                return self.panic_value(st, p)
            return None
        if name == 'ssa:wrapnilchk':
            if args[0] is None:
                raise GoPanic('nil-deref', None, 'wrapnilchk')
            return args[0]
        if name == 'close':
            ch = args[0]
            cv = self.cell_get(st, ch.cell)
            if cv.closed:
                raise GoPanic('close-closed-chan', None, ins.get('pos', ''))
            self.cell_set(st, ch.cell, ChanVal(cv.cap, cv.q, True))
            return None
        if name in ('min', 'max'):
            t = self.T(ins['t'])
            r = args[0]
            for a in args[1:]:
                if t['cls'] == 'int':
                    lt = self.int_binop(st, '<', a, r, t, t, '')
                    c = lt if name == 'min' else not_(lt)
                    r = ite(c, a, r, t['bits'])
                else:
                    raise Unsupported('min/max on ' + t['s'])
            return r
        if name == 'clear':
            x = args[0]
            if isinstance(x, MapRef):
                self.cell_set(st, x.cell, MapVal(()))
                return None
            raise Unsupported('clear slice')
        raise Unsupported('builtin ' + name)

    def panic_value(self, st, p):
        if p.kind == 'explicit':
            return p.value
        return Iface(-1, p.kind)   # runtime error object (opaque)

    def slice_elems(self, st, s):
        if isinstance(s, (bytes, SymStr)):
            return str_elems(s)
        if s.base is None or s.len == 0:
            return ()
        arr = self.load(st, s.base)
        return arr[s.off:s.off + s.len]

    def bi_append(self, st, s, t, ins):
        add = self.slice_elems(st, t)
        if not add:
            return s
        n = s.len + len(add)
        if s.base is not None and n <= s.cap:
            arr = self.load(st, s.base)
            arr = arr[:s.off + s.len] + tuple(add) + arr[s.off + n:]
            self.store(st, s.base, arr)
            return Slice(s.base, s.off, n, s.cap)
        old = self.slice_elems(st, s)
        newcap = self.grow_cap(s.cap, n, ins)
        et = self.T(self.T(ins['t'])['elem'])['id'] if self.T(ins['t'])['cls'] == 'slice' else None
        z = self.zero(et) if et is not None else 0
        arr = tuple(old) + tuple(add) + (z,) * (newcap - n)
        c = self.new_cell(st, arr)
        return Slice(Ptr(c, ()), 0, n, newcap)

    def grow_cap(self, oldcap, need, ins):
        # Go's growslice without size-class rounding (aliasing after growth
        # never depends on the exact capacity in the code under test)
        if need > 2 * oldcap:
            return need
        if oldcap < 256:
            return max(2 * oldcap, need)
        c = oldcap
        while c < need:
            c += (c + 3 * 256) // 4
        return c

    def bi_copy(self, st, dst, src):
        s = self.slice_elems(st, src)
        n = min(dst.len, len(s))
        if n == 0:
            return 0
        arr = self.load(st, dst.base)
        arr = arr[:dst.off] + tuple(s[:n]) + arr[dst.off + n:]
        self.store(st, dst.base, arr)
        return n

    # ---------- channels ----------
    def op_Send(self, st, f, ins):
        ch = self.val(f, ins['ch'])
        x = self.val(f, ins['x'])
        if ch is None:
            raise PathEnd('blocked', 'send on nil channel')
        cv = self.cell_get(st, ch.cell)
        if cv.closed:
            raise GoPanic('send-closed-chan', None, ins.get('pos', ''))
        if len(cv.q) >= cv.cap:
            raise PathEnd('blocked', 'send would block at ' + ins.get('pos', ''))
        self.cell_set(st, ch.cell, ChanVal(cv.cap, cv.q + (x,), cv.closed))

    def chan_recv(self, st, f, ins, ch):
        if ch is None:
            raise PathEnd('blocked', 'recv on nil channel')
        cv = self.cell_get(st, ch.cell)
        et = self.T(ins['xt'])['elem']
        if cv.q:
            v, ok = cv.q[0], True
            self.cell_set(st, ch.cell, ChanVal(cv.cap, cv.q[1:], cv.closed))
        elif cv.closed:
            v, ok = self.zero(et), False
        else:
            raise PathEnd('blocked', 'recv would block at ' + ins.get('pos', ''))
        f.locals[ins['r']] = (v, ok) if ins['commaok'] else v

    def op_Select(self, st, f, ins):
        ready = []
        for i, s in enumerate(ins['states']):
            ch = self.val(f, s['ch'])
            if ch is None:
                continue
            if isinstance(ch, (Opaque, Poison)):
                raise Unsupported('select on opaque channel')
            cv = self.cell_get(st, ch.cell)
            if s['send']:
                if cv.closed or len(cv.q) < cv.cap:
                    ready.append(i)
            else:
                if cv.q or cv.closed:
                    ready.append(i)
        tt = self.T(ins['t'])['tuple']
        if not ready:
            if ins['blocking']:
                raise PathEnd('blocked', 'select would block at ' + ins.get('pos', ''))
            res = [-1, False] + [self.zero(t) for t in tt[2:]]
            f.locals[ins['r']] = tuple(res)
            return
        k = ready[0]
        if len(ready) > 1:
            k = ready[self.choose(st, [True] * len(ready), maporder=True)]
        s = ins['states'][k]
        ch = self.val(f, s['ch'])
        cv = self.cell_get(st, ch.cell)
        res = [k, False] + [self.zero(t) for t in tt[2:]]
        if s['send']:
            if cv.closed:
                raise GoPanic('send-closed-chan', None, ins.get('pos', ''))
            self.cell_set(st, ch.cell, ChanVal(cv.cap, cv.q + (self.val(f, s['v']),), cv.closed))
        else:
            ridx = 2 + sum(1 for j in range(k) if not ins['states'][j]['send'])
            if cv.q:
                res[1] = True
                res[ridx] = cv.q[0]
                self.cell_set(st, ch.cell, ChanVal(cv.cap, cv.q[1:], cv.closed))
        f.locals[ins['r']] = tuple(res)
