# Native replay: compile the harness with the native verif API through `go test -overlay`
# and run witnesses against the real build.
import glob
import json
import os
import re
import subprocess

from .run import VERIF, REPO, MODULE, pkg_name, parse_harnesses

XC = 'libs/cryptonote/xcrypto'


def xcrypto_overlay(workdir):
    """pure-Go stand-in for the cgo package whose C library is absent (zero results, never panics)"""
    src = os.path.join(REPO, XC)
    funcs = []
    imports = set()
    for base in ('keys.go', 'rct.go', 'tlv_call.go'):
        p = os.path.join(src, base)
        if not os.path.exists(p):
            continue
        text = open(p).read()
        for m in re.finditer(r'^func ([A-Z]\w*)\((.*?)\)\s*(\(.*?\)|[\w\.\*\[\]]+)?\s*\{\s*$', text, re.M):
            name, params, res = m.group(1), m.group(2), (m.group(3) or '').strip()
            if 'C.' in params or 'C.' in res:
                continue
            if res.startswith('('):
                inner = res[1:-1]
                parts = [x.strip() for x in inner.split(',')]
                named = any(' ' in x for x in parts)
                if not named:
                    res = '(' + ', '.join('r%d %s' % (i, x) for i, x in enumerate(parts)) + ')'
            elif res:
                res = '(r0 %s)' % res
            funcs.append('func %s(%s) %s {\n\treturn\n}\n' % (name, params, res))
            for q in re.findall(r'\b(\w+)\.', params + ' ' + res):
                imports.add(q)
        for im in re.finditer(r'^\s*(\w+\s+)?"([^"]+)"\s*$', text, re.M):
            pass
    imp_lines = []
    known = {'types': 'github.com/lianxiangcloud/linkchain/libs/cryptonote/types',
             'common': 'github.com/lianxiangcloud/linkchain/libs/common'}
    for q in sorted(imports):
        if q in known:
            imp_lines.append('\t%s "%s"' % (q, known[q]))
    body = 'package xcrypto\n\nimport (\n%s\n)\n\n%s' % ('\n'.join(imp_lines), '\n'.join(funcs))
    os.makedirs(workdir, exist_ok=True)
    p1 = os.path.join(workdir, 'xcrypto_standin.go')
    open(p1, 'w').write(body)
    p2 = os.path.join(workdir, 'xcrypto_empty.go')
    open(p2, 'w').write('package xcrypto\n')
    ov = {os.path.join(src, 'keys.go'): p1}
    for base in ('rct.go', 'tlv_call.go', 'ld_linux.go', 'ld_darwin.go', 'ld_windows.go'):
        if os.path.exists(os.path.join(src, base)):
            ov[os.path.join(src, base)] = p2
    return ov


def native_overlay(workdir, pkgdir, harness_files, extra=None):
    os.makedirs(workdir, exist_ok=True)
    name = pkg_name(pkgdir)
    tdir = os.path.join(VERIF, 'engine', 'api')
    api = open(os.path.join(tdir, 'api_native.go.tmpl')).read().replace('PKGNAME', name)
    apipath = os.path.join(workdir, 'zz_verif_api_native.go')
    open(apipath, 'w').write(api)
    names = []
    targets = {}
    setters = []
    for hf in harness_files:
        for (n, _, stubs) in parse_harnesses(hf):
            names.append(n)
            lines = []
            for tgt, stubfn in sorted(stubs.items()):
                if MODULE not in tgt.split(')')[0].lstrip('(*'):
                    continue   # standard-library targets are stubbed for the encoder only; natively the real function runs
                if tgt not in targets:
                    targets[tgt] = len(targets)
                lines.append('zzverifhooks.H[%d] = %s' % (targets[tgt], stubfn))
            if lines:
                setters.append('\t"%s": func() { %s },' % (n, '; '.join(lines)))
    tst = open(os.path.join(tdir, 'replay_test.go.tmpl')).read().replace('PKGNAME', name)
    tst = tst.replace('HARNESSES', '\n'.join('\t"%s": %s,' % (n, n) for n in names))
    tst = tst.replace('STUBSETTERS', '\n'.join(setters))
    stub_ov = {}
    if targets:
        tst = tst.replace('HOOKIMPORT', '\t"%s/zzverifhooks"' % MODULE)
        tst = tst.replace('HOOKCLEAR', '\tfor i := range zzverifhooks.H {\n\t\tzzverifhooks.H[i] = nil\n\t}')
        spec = dict(repo=REPO, module=MODULE, out=workdir,
                    stubs=[dict(target=t, index=i) for t, i in targets.items()])
        sp = os.path.join(workdir, 'stubgen.json')
        json.dump(spec, open(sp, 'w'))
        p = subprocess.run([os.path.join(VERIF, 'bin', 'stubgen'), sp], stdout=subprocess.PIPE, stderr=subprocess.PIPE)
        if p.returncode != 0:
            raise RuntimeError('stubgen failed: ' + p.stderr.decode())
        stub_ov = json.loads(p.stdout.decode())
    else:
        tst = tst.replace('HOOKIMPORT', '').replace('HOOKCLEAR', '')
    tpath = os.path.join(workdir, 'zz_verif_replay_test.go')
    open(tpath, 'w').write(tst)
    ov = dict(xcrypto_overlay(workdir))
    ov.update(stub_ov)
    ov[os.path.join(REPO, pkgdir, 'zz_verif_api_native.go')] = apipath
    ov[os.path.join(REPO, pkgdir, 'zz_verif_replay_test.go')] = tpath
    for i, h in enumerate(harness_files):
        ov[os.path.join(REPO, pkgdir, 'zz_verif_h%d_%s' % (i, os.path.basename(h)))] = os.path.abspath(h)
    if extra:
        ov.update(extra)
    ovpath = os.path.join(workdir, 'overlay_native.json')
    json.dump({'Replace': ov}, open(ovpath, 'w'), indent=1)
    return ovpath


def run_jobs(pkgdir, ovpath, jobs, workdir, timeout=600, tags='verif'):
    """jobs: list of dict(harness, witness(dict), want, repeat). Returns (outcomes or None, log)"""
    jl = []
    for i, j in enumerate(jobs):
        wp = os.path.join(workdir, 'w_%d.json' % i)
        json.dump(j['witness'], open(wp, 'w'))
        jl.append(dict(harness=j['harness'], witness=wp, want=j.get('want', ''), repeat=j.get('repeat', 1)))
    jpath = os.path.join(workdir, 'jobs.json')
    json.dump(jl, open(jpath, 'w'))
    opath = os.path.join(workdir, 'outcomes.json')
    if os.path.exists(opath):
        os.remove(opath)
    env = dict(os.environ)
    env.update(GOFLAGS='-mod=mod', GOPROXY='off', GOSUMDB='off', GOTOOLCHAIN='local',
               VERIF_JOBS=jpath, VERIF_OUT=opath)
    cmd = ['go', 'test', '-vet=off', '-count=1', '-tags', tags, '-run', '^TestVerifReplay$', '-overlay', ovpath,
           '-timeout', '%ds' % timeout, './' + pkgdir]

    def untracked():
        try:
            o = subprocess.run(['git', '-C', REPO, 'status', '--porcelain', '--untracked-files=all', '--', pkgdir],
                               stdout=subprocess.PIPE, stderr=subprocess.DEVNULL).stdout.decode()
            return set(l[3:].strip() for l in o.splitlines() if l.startswith('??'))
        except Exception:
            return set()

    before = untracked()

    def cleanup():
        # in-tree test init()s of some packages create files next to the sources (app/kvState.wal):
        # the replay must leave /repo as it found it
        for f in untracked() - before:
            try:
                os.remove(os.path.join(REPO, f))
            except OSError:
                pass

    try:
        p = subprocess.run(cmd, cwd=REPO, env=env, stdout=subprocess.PIPE, stderr=subprocess.STDOUT,
                           timeout=timeout + 60)
        log = p.stdout.decode('utf-8', 'replace')
        cleanup()
    except subprocess.TimeoutExpired as e:
        cleanup()
        return None, 'replay timeout'
    if not os.path.exists(opath):
        return None, log
    return json.load(open(opath)), log


def reproduces(w, o):
    """does native outcome o confirm witness w?"""
    if o is None:
        return False
    if w['kind'] == 'reach':
        return w['label'] in (o.get('reached') or [])
    if w['kind'] == 'assert':
        return o.get('failed') == w['label']
    if w['kind'] == 'panic':
        return bool(o.get('panic')) and not o.get('failed')
    return False
