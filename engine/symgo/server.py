# Client for ssaserve: on-demand functions, types, globals, method lookup.
import json
import os
import subprocess
import threading

BIN = os.path.join(os.path.dirname(os.path.abspath(__file__)), '..', '..', 'bin', 'ssaserve')


class ServerError(Exception):
    pass


class Server:
    def __init__(self, patterns, overlay=None, repo='/repo', lock=None):
        env = dict(os.environ)
        env.update(GOFLAGS='-mod=mod', GOPROXY='off', GOSUMDB='off', GOTOOLCHAIN='local')
        args = [BIN, '-dir', repo]
        if overlay:
            args += ['-overlay', overlay]
        args += list(patterns)
        self.p = subprocess.Popen(args, stdin=subprocess.PIPE, stdout=subprocess.PIPE, env=env)
        line = self.p.stdout.readline()
        if not line:
            raise ServerError('ssaserve failed to start')
        self.ready = json.loads(line)
        self.lock = lock or threading.Lock()
        self.funcs = {}
        self.types = {}
        self.globals = {}
        self.methods = {}
        self.assertable_cache = {}
        self.lookup_cache = {}
        self.ptrto_cache = {}

    def req(self, **kw):
        with self.lock:
            self.p.stdin.write((json.dumps(kw) + '\n').encode())
            self.p.stdin.flush()
            line = self.p.stdout.readline()
        if not line:
            raise ServerError('ssaserve died')
        r = json.loads(line)
        if 'error' in r:
            raise ServerError(r['error'] + ' for ' + repr(kw))
        return r

    def close(self):
        try:
            self.p.stdin.close()
            self.p.wait(timeout=5)
        except Exception:
            self.p.kill()

    def func(self, fid):
        f = self.funcs.get(fid)
        if f is None:
            f = self.req(op='func', id=fid)
            self.funcs[fid] = f
        return f

    def type(self, tid):
        t = self.types.get(tid)
        if t is None:
            t = self.req(op='type', id=tid)
            self.types[tid] = t
        return t

    def glob(self, gid):
        g = self.globals.get(gid)
        if g is None:
            g = self.req(op='global', id=gid)
            self.globals[gid] = g
        return g

    def lookup(self, name):
        if name not in self.lookup_cache:
            self.lookup_cache[name] = self.req(op='lookup', name=name)['f']
        return self.lookup_cache[name]

    def method(self, tid, name, pkg):
        k = (tid, name, pkg)
        if k not in self.methods:
            self.methods[k] = self.req(op='method', t=tid, name=name, pkg=pkg or '')['f']
        return self.methods[k]

    def assertable(self, dyn, to):
        k = (dyn, to)
        if k not in self.assertable_cache:
            self.assertable_cache[k] = self.req(op='assertable', dyn=dyn, to=to)['ok']
        return self.assertable_cache[k]

    def ptrto(self, tid):
        if tid not in self.ptrto_cache:
            self.ptrto_cache[tid] = self.req(op='ptrto', t=tid)['t']
        return self.ptrto_cache[tid]
