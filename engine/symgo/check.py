# check <ID> --tier quick|thorough : run all harnesses of a property, cross-check, replay, evidence.
import argparse
import glob
import importlib.util
import json
import multiprocessing as mp
import os
import re
import shutil
import subprocess
import sys
import time
import traceback

from . import run as R
from . import replay as RP
from .server import Server

VERIF = R.VERIF


def harness_files(pid):
    """returns {pkgdir: [files]} for /verif/harness/<pid>/*.go (each has a //verif:pkg line)"""
    out = {}
    for f in sorted(glob.glob(os.path.join(VERIF, 'harness', pid, '*.go'))):
        pkg = None
        for line in open(f):
            m = re.match(r'^//verif:pkg\s+(\S+)', line)
            if m:
                pkg = m.group(1)
                break
        if pkg is None:
            raise RuntimeError('no //verif:pkg in ' + f)
        out.setdefault(pkg, []).append(f)
    return out


_SRV = None


def _worker(job):
    (pkgdir, hf, name, opts, stubs) = job
    from .explore import Executor
    t0 = time.time()
    ex = Executor(_SRV, opts)
    ex.stubs = {k: R.qualify(pkgdir, v) for k, v in stubs.items()}
    try:
        ex.run_harness(R.qualify(pkgdir, name), budget_s=opts.get('budget_s', 600))
    except BaseException:
        ex.inconclusive.append(('engine-error', traceback.format_exc()[-1500:]))
    r = R.result_summary(ex, name, time.time() - t0)
    r['stats'] = dict(ex.stats)
    r['funcs_encoded'] = dict(ex.funcs_encoded)
    r['models_used'] = sorted(ex.models_used)
    r['stubs_used'] = sorted(ex.stubs_used)
    r['opts'] = opts
    r['queries_log'] = ex.queries_log
    r['pkgdir'] = pkgdir
    r['file'] = hf
    return r


def run_pkg(pid, pkgdir, files, tier, workdir, only, nproc, seed):
    global _SRV
    ov = R.make_overlay(workdir, pkgdir, files)
    lock = mp.get_context('fork').Lock()
    t0 = time.time()
    _SRV = Server(['./' + pkgdir], overlay=ov, repo=R.REPO, lock=lock)
    load_s = time.time() - t0
    jobs = []
    for hf in files:
        for (name, opts, stubs) in R.parse_harnesses(hf):
            if only and name not in only:
                continue
            if opts.get('only') == 'thorough' and tier != 'thorough':
                continue
            if opts.get('only') == 'quick' and tier != 'quick':
                continue
            o = dict(log_queries=True, seed=seed)
            for k, v in opts.items():
                if not k.startswith('thorough.'):
                    o[k] = v
            if tier == 'thorough':
                for k, v in opts.items():
                    if k.startswith('thorough.'):
                        o[k[len('thorough.'):]] = v
            o['tier'] = tier
            K = int(o.get('split', 0) or 0)
            if K > 1:
                for si in range(K):
                    oo = dict(o)
                    oo['split_index'] = si
                    jobs.append((pkgdir, hf, name, oo, stubs))
            else:
                jobs.append((pkgdir, hf, name, o, stubs))
    results = []
    try:
        if nproc <= 1 or len(jobs) <= 1:
            for j in jobs:
                results.append(_worker(j))
        else:
            ctx = mp.get_context('fork')
            with ctx.Pool(min(nproc, len(jobs)), maxtasksperchild=1) as pool:
                for r in pool.imap_unordered(_worker, jobs, chunksize=1):
                    results.append(r)
    finally:
        _SRV.close()
        _SRV = None
    results = merge_splits(results)
    results.sort(key=lambda r: r['harness'])
    return results, load_s


def merge_splits(results):
    by = {}
    out = []
    for r in results:
        if not r['opts'].get('split'):
            out.append(r)
            continue
        m = by.get(r['harness'])
        if m is None:
            by[r['harness']] = r
            r['split_parts'] = 1
            out.append(r)
            continue
        m['split_parts'] += 1
        for label, a in r['asserts'].items():
            b = m['asserts'].get(label)
            if b is None:
                m['asserts'][label] = a
            else:
                for k in ('checked', 'proved', 'nviol', 'unknown'):
                    b[k] += a[k]
        m['violations'] += r['violations']
        for k, w in r['reach'].items():
            m['reach'].setdefault(k, w)
        for k, v in r['reach_count'].items():
            m['reach_count'][k] = m['reach_count'].get(k, 0) + v
        for k, v in r['ends'].items():
            m['ends'][k] = m['ends'].get(k, 0) + v
        m['inconclusive'] += r['inconclusive']
        m['wall_s'] = max(m['wall_s'], r['wall_s'])
        for k, v in r['stats'].items():
            if isinstance(v, (int, float)):
                m['stats'][k] = m['stats'].get(k, 0) + v
        m['funcs_encoded'].update(r['funcs_encoded'])
        m['models_used'] = sorted(set(m['models_used']) | set(r['models_used']))
        m['stubs_used'] = sorted(set(m['stubs_used']) | set(r['stubs_used']))
        m['queries_log'] += r['queries_log']
    return out


def cross_check(queries, workdir, cap_s=10, budget_s=90, max_queries=40):
    """re-run a bounded, evenly spaced sample of the logged deciding queries through z3 4.8.12
    and cvc5 (one process each, queries separated by (reset)); returns a summary dict"""
    summary = {}
    if not queries:
        return summary
    if len(queries) > max_queries:
        step = len(queries) / float(max_queries)
        queries = [queries[int(i * step)] for i in range(max_queries)]
    solvers = {
        'z3-4.8.12': ['/usr/bin/z3', '-in', '-t:%d' % (cap_s * 1000)],
        'cvc5-1.0': ['/usr/bin/cvc5', '--incremental', '--lang=smt2', '--tlimit-per=%d' % (cap_s * 1000)],
    }
    import threading

    def run_solver(sname, cmd):
        t0 = time.time()
        agree = disagree = errors = unknown = 0
        bad = []
        todo = list(queries)
        rounds = 0
        while todo and rounds < 30 and time.time() - t0 < budget_s:
            rounds += 1
            text = []
            for (label, verdict, smt) in todo:
                for a_, b_ in (('bvsdiv_i', 'bvsdiv'), ('bvudiv_i', 'bvudiv'), ('bvsrem_i', 'bvsrem'),
                               ('bvurem_i', 'bvurem'), ('bvsmod_i', 'bvsmod')):
                    smt = smt.replace(a_, b_)
                text.append('(reset)\n(echo "QSTART")\n' + smt + '\n(echo "QEND")\n')
            out = ''
            try:
                p = subprocess.Popen(cmd, stdin=subprocess.PIPE, stdout=subprocess.PIPE, stderr=subprocess.STDOUT)
                try:
                    o, _ = p.communicate('\n'.join(text).encode(), timeout=max(5, budget_s - (time.time() - t0)))
                    out = o.decode('utf-8', 'replace')
                except subprocess.TimeoutExpired as e:
                    p.kill()
                    o, _ = p.communicate()
                    out = (o or b'').decode('utf-8', 'replace')
            except Exception:
                out = ''
            chunks = out.split('QSTART')[1:]
            complete = [ch for ch in chunks if 'QEND' in ch]
            if not complete:
                break
            for (label, verdict, smt), ch in zip(todo, complete):
                body = ch.split('QEND')[0]
                if '(error' in body:
                    errors += 1
                    continue
                m = re.search(r'^(sat|unsat|unknown|timeout)\s*$', body, re.M)
                if not m or m.group(1) in ('unknown', 'timeout'):
                    unknown += 1
                elif m.group(1) == verdict:
                    agree += 1
                else:
                    disagree += 1
                    bad.append(label)
            todo = todo[len(complete):]   # a solver that exits on an error is restarted on the rest
        summary[sname] = dict(queries=len(queries), agree=agree, disagree=disagree, error=errors,
                              unknown=unknown, not_run_within_budget=len(todo),
                              wall_s=round(time.time() - t0, 2), disagree_labels=bad[:5])

    ths = [threading.Thread(target=run_solver, args=(n, c)) for n, c in solvers.items() if os.path.exists(c[0])]
    for t in ths:
        t.start()
    for t in ths:
        t.join()
    return summary


def load_known(pid):
    p = os.path.join(VERIF, 'known_findings.json')
    if not os.path.exists(p):
        return []
    return [e for e in json.load(open(p)).get('findings', []) if e.get('property') == pid]


def match_known(known, harness, label):
    for e in known:
        if e.get('harness') and e['harness'] != harness:
            continue
        if re.search(e['label'], label):
            return e
    return None


def static_checks(pid, tier, workdir):
    """optional /verif/harness/<pid>/static.py with run(tier, workdir) -> list of dict(name, ok, detail, kind)"""
    p = os.path.join(VERIF, 'harness', pid, 'static.py')
    if not os.path.exists(p):
        return []
    spec = importlib.util.spec_from_file_location('static_' + pid, p)
    mod = importlib.util.module_from_spec(spec)
    spec.loader.exec_module(mod)
    return mod.run(tier, workdir)


def main(argv=None):
    ap = argparse.ArgumentParser()
    ap.add_argument('pid')
    ap.add_argument('--tier', default=os.environ.get('VERIF_TIER', 'quick'))
    ap.add_argument('--only', action='append')
    ap.add_argument('--replay')
    ap.add_argument('--jobs', type=int, default=int(os.environ.get('VERIF_JOBS_N', '12')))
    ap.add_argument('--no-evidence', action='store_true')
    ap.add_argument('--verbose', '-v', action='store_true')
    ap.add_argument('--keep', action='store_true')
    args = ap.parse_args(argv)
    pid = args.pid
    tier = args.tier if args.tier in ('quick', 'thorough') else 'quick'
    try:
        seed = int(os.environ.get('VERIF_SEED', '0'))
    except ValueError:
        seed = 0
    t_start = time.time()
    workdir = os.path.join(VERIF, '.work', '%s_%s_%d' % (pid, tier, os.getpid()))
    os.makedirs(workdir, exist_ok=True)
    try:
        if args.replay:
            return do_replay(pid, args.replay, workdir)
        return do_check(pid, tier, seed, args, workdir, t_start)
    finally:
        if not args.keep:
            shutil.rmtree(workdir, ignore_errors=True)


def do_replay(pid, path, workdir):
    w = json.load(open(path))
    files = harness_files(pid)
    pkgdir = w['pkgdir']
    ov = RP.native_overlay(workdir, pkgdir, files[pkgdir])
    want = w['label'] if w['kind'] != 'panic' else 'panic'
    outs, log = RP.run_jobs(pkgdir, ov, [dict(harness=w['harness'], witness=w, want=want,
                                              repeat=50 if w.get('maporder') else 1)], workdir)
    if outs is None:
        print(log[-3000:])
        print('REPLAY-ERROR')
        return 2
    o = outs[0]
    print(json.dumps(o, indent=1))
    if RP.reproduces(w, o):
        print('REPRODUCED property=%s harness=%s label=%s' % (pid, w['harness'], w['label']))
        return 1
    print('NOT-REPRODUCED')
    return 0


def do_check(pid, tier, seed, args, workdir, t_start):
    files = harness_files(pid)
    known = load_known(pid)
    all_results = []
    load_s = 0.0
    load_failures = []
    for pkgdir, fl in files.items():
        try:
            res, ls = run_pkg(pid, pkgdir, fl, tier, os.path.join(workdir, pkgdir.replace('/', '_')), args.only,
                              args.jobs, seed)
        except Exception as e:
            # the package plus its harnesses does not load (e.g. the code was restructured under a
            # white-box harness): nothing was decided for it - inconclusive, never a pass
            load_failures.append((pkgdir, '%s: %s' % (type(e).__name__, e)))
            continue
        load_s += ls
        all_results += res
        if args.verbose:
            for r in res:
                R.print_result(r)
    # ---- cross-check a bounded sample of deciding queries
    queries = []
    for r in all_results:
        queries += r.pop('queries_log')
    cc = cross_check(queries, workdir)
    # ---- native replay of violations and reach witnesses
    violations, reach_jobs = [], []
    per_pkg_jobs = {}
    for r in all_results:
        # at most 3 witnesses per obligation are replayed and kept
        cnt = {}
        kept = []
        for w in r['violations']:
            cnt[w['label']] = cnt.get(w['label'], 0) + 1
            if cnt[w['label']] <= 3:
                kept.append(w)
        r['violations'] = kept
        for w in r['violations']:
            w['harness'] = r['harness']
            w['pkgdir'] = r['pkgdir']
            w['property'] = pid
            per_pkg_jobs.setdefault(r['pkgdir'], []).append(w)
        for label, w in r['reach'].items():
            w['harness'] = r['harness']
            w['pkgdir'] = r['pkgdir']
            w['property'] = pid
            per_pkg_jobs.setdefault(r['pkgdir'], []).append(w)
    replay_ok = replay_fail = 0
    replay_errors = []
    for pkgdir, ws in per_pkg_jobs.items():
        wd = os.path.join(workdir, 'replay_' + pkgdir.replace('/', '_'))
        ov = RP.native_overlay(wd, pkgdir, files[pkgdir])
        jobs = [dict(harness=w['harness'], witness=w, want=(w['label'] if w['kind'] != 'panic' else 'panic'),
                     repeat=50 if w.get('maporder') else 1) for w in ws]
        outs, log = RP.run_jobs(pkgdir, ov, jobs, wd, timeout=900)
        if outs is None:
            replay_errors.append((pkgdir, log[-2000:]))
            for w in ws:
                w['reproduced'] = None
            continue
        for w, o in zip(ws, outs):
            w['reproduced'] = RP.reproduces(w, o)
            w['native'] = dict(failed=o.get('failed'), panic=(o.get('panic') or '')[:200], reached=o.get('reached'))
            if w['reproduced']:
                replay_ok += 1
            else:
                replay_fail += 1
    # ---- static obligations
    statics = []
    try:
        statics = static_checks(pid, tier, workdir)
    except Exception:
        statics = [dict(name='static-checks', ok=None, detail=traceback.format_exc()[-800:])]
    # ---- verdicts
    lines = []
    exit_code = 0
    nviol = 0
    inconclusive = []
    wdir = os.path.join(VERIF, 'evidence', 'witness', pid)
    if args.no_evidence:
        # trial runs (seeded changes, unfixed trees) leave the committed evidence alone
        wdir = os.path.join(VERIF, '.work', 'witness', pid)
    if os.path.isdir(wdir):
        shutil.rmtree(wdir)
    seen_known = set()
    seen_viol = set()
    for r in all_results:
        for (k, info) in r['inconclusive']:
            inconclusive.append((r['harness'], k, info))
        for label, w in r['reach'].items():
            if w.get('reproduced') is False:
                inconclusive.append((r['harness'], 'reach-replay-mismatch', label + ' native=' + json.dumps(w.get('native'))))
                os.makedirs(wdir, exist_ok=True)
                json.dump(w, open(os.path.join(wdir, 'reach_mismatch__%s__%s.json' % (r['harness'], re.sub(r'[^A-Za-z0-9_.-]+', '_', label))), 'w'), indent=1)
            elif w.get('reproduced') is None:
                inconclusive.append((r['harness'], 'replay-error', label))
        for w in r['violations']:
            if w.get('reproduced') is True:
                e = match_known(known, r['harness'], w['label'])
                if e is not None:
                    key = (e.get('id'), )
                    if key not in seen_known:
                        seen_known.add(key)
                        lines.append('KNOWN-FINDING: property=%s %s' % (pid, e['text']))
                    continue
                os.makedirs(wdir, exist_ok=True)
                safe = re.sub(r'[^A-Za-z0-9_.-]+', '_', w['label'])[:60]
                path = os.path.join(wdir, '%s__%s_%d.json' % (r['harness'], safe, nviol))
                json.dump(w, open(path, 'w'), indent=1)
                nviol += 1
                if (r['harness'], w['label']) in seen_viol:
                    continue   # further witnesses of the same obligation are saved but not printed
                seen_viol.add((r['harness'], w['label']))
                lines.append('VIOLATION property=%s replay=%s' % (pid, path))
                lines.append('  harness=%s label=%s native=%s' % (r['harness'], w['label'], json.dumps(w.get('native'))))
            else:
                inconclusive.append((r['harness'], 'counterexample-not-reproduced',
                                     w['label'] + ' native=' + json.dumps(w.get('native'))))
    for s in statics:
        if s.get('ok') is False:
            e = match_known(known, 'static', s['name'])
            if e is not None:
                lines.append('KNOWN-FINDING: property=%s %s' % (pid, e['text']))
                continue
            os.makedirs(wdir, exist_ok=True)
            path = os.path.join(wdir, 'static__%s.json' % re.sub(r'[^A-Za-z0-9_.-]+', '_', s['name']))
            json.dump(s, open(path, 'w'), indent=1)
            lines.append('VIOLATION property=%s replay=%s' % (pid, path))
            lines.append('  static=%s detail=%s' % (s['name'], str(s.get('detail'))[:300]))
            nviol += 1
        elif s.get('ok') is None:
            inconclusive.append(('static', 'static-error', s['name'] + ': ' + str(s.get('detail'))[:500]))
    for sname, c in cc.items():
        if c['disagree']:
            inconclusive.append(('cross-check', 'solver-disagreement', '%s on %s' % (sname, c['disagree_labels'])))
    for (pkgdir, log) in replay_errors:
        inconclusive.append((pkgdir, 'replay-build-error', log[-1200:]))
    for (pkgdir, msg) in load_failures:
        inconclusive.append((pkgdir, 'harness-load-error', msg + ' (see the ssaserve load errors above)'))
    if not all_results and not statics:
        inconclusive.append((pid, 'no-harness', 'nothing ran'))
    if nviol:
        exit_code = 1
    elif inconclusive:
        exit_code = 2
    seen_inc = set()
    for (h, k, info) in inconclusive:
        if (h, k, info[:120]) in seen_inc or len(seen_inc) >= 25:
            continue
        seen_inc.add((h, k, info[:120]))
        lines.append('INCONCLUSIVE property=%s obligation=%s reason=%s %s' % (pid, h, k, info.replace('\n', ' | ')[:700]))
    wall = time.time() - t_start
    if not args.no_evidence:
        write_evidence(pid, tier, seed, all_results, statics, cc, replay_ok, replay_fail, nviol, inconclusive, wall,
                       load_s, known, seen_known)
    for l in lines:
        print(l)
    tot = sum(len(r['asserts']) for r in all_results)
    print('%s tier=%s harnesses=%d obligations=%d violations=%d inconclusive=%d replayed_ok=%d wall=%.1fs -> exit %d' % (
        pid, tier, len(all_results), tot + len(statics), nviol, len(inconclusive), replay_ok, wall, exit_code))
    return exit_code


def write_evidence(pid, tier, seed, results, statics, cc, replay_ok, replay_fail, nviol, inconclusive, wall, load_s,
                   known, seen_known):
    states = sum(r['stats']['paths'] + r['stats']['forks'] for r in results)
    transitions = sum(r['stats']['forks'] for r in results) + sum(r['stats']['steps'] for r in results)
    obligations = []
    discharged = 0
    for r in results:
        for label, a in r['asserts'].items():
            ok = a['nviol'] == 0 and a['unknown'] == 0
            obligations.append(dict(harness=r['harness'], label=label, checked_on_paths=a['checked'],
                                    proved_on_paths=a['proved'], violations=a['nviol'], unknown=a['unknown']))
            if ok:
                discharged += 1
    for s in statics:
        obligations.append(dict(harness='static', label=s['name'], ok=s.get('ok'), detail=str(s.get('detail'))[:300]))
        if s.get('ok'):
            discharged += 1
    samples = []
    for r in results:
        for label, w in list(r['reach'].items())[:2]:
            samples.append(dict(harness=r['harness'], reach=label, nondet=w['nondet'][:24],
                                replayed_natively=w.get('reproduced')))
        if len(samples) >= 12:
            break
    if not samples:
        samples = [dict(harness=r['harness'], labels=list(r['asserts'].keys())[:6]) for r in results[:4]]
    if not samples:
        samples = [dict(static=s['name'], ok=s.get('ok')) for s in statics[:4]] or ['none']
    funcs = {}
    models, stubs, bounds = set(), set(), {}
    for r in results:
        for k, v in r['funcs_encoded'].items():
            if '.H_' in k or '.stub_' in k or '.ref' in k.rsplit('/', 1)[-1][:0]:
                pass
            funcs[k] = v
        models.update(r['models_used'])
        stubs.update(r['stubs_used'])
        bounds[r['harness']] = {k: v for k, v in r['opts'].items() if k in (
            'unwind', 'max_split', 'budget_s', 'map_perm_max', 'max_depth', 'tier')}
    q = dict(total=sum(r['stats']['queries'] for r in results), sat=sum(r['stats']['sat'] for r in results),
             unsat=sum(r['stats']['unsat'] for r in results), unknown=sum(r['stats']['unknown'] for r in results))
    ev = dict(
        property_id=pid, tier=tier, seed=seed, level='model_checking',
        coverage=dict(
            states=max(states, 1), transitions=max(transitions, 1),
            traces_validated_against_impl=replay_ok,
            samples=samples,
            obligations=len(obligations), discharged=discharged,
            obligation_list=obligations,
            harnesses=[dict(name=r['harness'], pkg=r['pkgdir'], paths=r['stats']['paths'], forks=r['stats']['forks'],
                            ends=r['ends'], wall_s=round(r['wall_s'], 2), reach=r['reach_count']) for r in results],
            functions_encoded=funcs,
            functions_encoded_count=len(funcs),
            ssa_instructions_encoded=sum(funcs.values()),
            builtin_models_used=sorted(models),
            go_stubs_used=sorted(stubs),
            bounds=bounds,
            queries=q,
            solver_s=round(sum(r['stats']['solver_s'] for r in results), 2),
            ssa_load_s=round(load_s, 2),
            cross_check=cc,
            replay=dict(reproduced=replay_ok, not_reproduced=replay_fail),
            inconclusive=[dict(obligation=h, reason=k, info=i[:300]) for (h, k, i) in inconclusive[:20]],
            known_findings_reported=sorted(str(k[0]) for k in seen_known),
            exhaustive=False,
            explanation='bounded symbolic execution of go/ssa of the real functions; verdicts are the SMT solver\'s '
                        'over all values within the stated bounds; sat verdicts are replayed natively before being reported',
        ),
        assumptions=sorted('model:' + m for m in models) + sorted('stub:' + s for s in stubs),
        wall_s=round(wall, 2), violations=nviol,
    )
    os.makedirs(os.path.join(VERIF, 'evidence'), exist_ok=True)
    extra = os.path.join(VERIF, 'harness', pid, 'claims.json')
    if os.path.exists(extra):
        c = json.load(open(extra))
        ev['coverage']['outside_claim'] = c.get('outside_claim', [])
        ev['assumptions'] += c.get('assumptions', [])
    json.dump(ev, open(os.path.join(VERIF, 'evidence', pid + '.json'), 'w'), indent=1, default=str)


if __name__ == '__main__':
    sys.exit(main())
