# Path-exploring symbolic interpreter for go/ssa (served by ssaserve).
import sys
import time
import itertools
import z3
from .values import *

sys.setrecursionlimit(200000)


class Unsupported(Exception):
    pass


class NeedFork(Exception):
    def __init__(self, feas, conds, models=None):
        self.feas = feas
        self.conds = conds
        self.models = models or {}


class PathEnd(Exception):
    """path terminates: kind in infeasible, done, unwind, unsupported, budget"""

    def __init__(self, kind, info=''):
        self.kind = kind
        self.info = info


class GoPanic(Exception):
    def __init__(self, kind, value=None, pos=''):
        self.kind = kind
        self.value = value
        self.pos = pos


class Frame:
    __slots__ = ('fn', 'locals', 'block', 'ip', 'prev', 'defers', 'visits', 'dest', 'unwinding', 'deferred_by', 'is_go')

    def __init__(self, fn, nlocals):
        self.fn = fn
        self.locals = [None] * nlocals
        self.block = 0
        self.ip = 0
        self.prev = -1
        self.defers = []
        self.visits = None
        self.dest = None        # local index in caller to receive the result, or None
        self.unwinding = False
        self.deferred_by = False  # frame runs a deferred call of its caller
        self.is_go = False

    def copy(self):
        f = Frame.__new__(Frame)
        f.fn = self.fn
        f.locals = list(self.locals)
        f.block = self.block
        f.ip = self.ip
        f.prev = self.prev
        f.defers = list(self.defers)
        f.visits = dict(self.visits) if self.visits else None
        f.dest = self.dest
        f.unwinding = self.unwinding
        f.deferred_by = self.deferred_by
        f.is_go = self.is_go
        return f


class PanicInfo:
    __slots__ = ('kind', 'value', 'pos', 'stack')

    def __init__(self, kind, value, pos, stack=''):
        self.kind = kind
        self.value = value
        self.pos = pos
        self.stack = stack


class State:
    def __init__(self):
        self.frames = []
        self.heap = {}
        self.next_cell = 1
        self.pc = []
        self.nondets = []      # list of (kind, expr)
        self.ufapps = []       # list of (name, args(tuple of python/z3), result expr)
        self.decisions = []
        self.dpos = 0
        self.panic = None
        self.ghost = {}        # misc per-path data (lock state, counters)
        self.nsteps = 0
        self.trace = []        # decision trace (for diagnostics)
        self.maporder = False  # path depended on a map-order choice
        self.model = None      # a model known to satisfy pc (or None)
        self.known = {}        # ast id -> (expr, bool): branch conditions already decided on this path
        self.pending_known = []  # decided during the current instruction; committed when it completes
        self.pending_asserts = []  # (label, cond) recorded since the last change of the path condition

    def copy(self):
        s = State.__new__(State)
        s.frames = [f.copy() for f in self.frames]
        s.heap = dict(self.heap)
        s.next_cell = self.next_cell
        s.pc = list(self.pc)
        s.nondets = list(self.nondets)
        s.ufapps = list(self.ufapps)
        s.decisions = list(self.decisions)
        s.dpos = self.dpos
        s.panic = self.panic
        s.ghost = dict(self.ghost)
        s.nsteps = self.nsteps
        s.trace = list(self.trace)
        s.maporder = self.maporder
        s.model = self.model
        s.known = dict(self.known)
        s.pending_known = []
        s.pending_asserts = list(self.pending_asserts)
        return s


def bv(v, bits):
    """coerce python int or z3 expr to a z3 bitvector of width bits"""
    if isinstance(v, z3.ExprRef):
        return v
    return z3.BitVecVal(v, bits)


def zbool(v):
    if isinstance(v, z3.ExprRef):
        return v
    return z3.BoolVal(bool(v))


def simp_bool(c):
    """return python bool if c simplifies to a constant, else the z3 expr"""
    if isinstance(c, bool):
        return c
    c = z3.simplify(c)
    if z3.is_true(c):
        return True
    if z3.is_false(c):
        return False
    return c


def simp_int(v):
    if isinstance(v, int):
        return v
    v = z3.simplify(v)
    if z3.is_bv_value(v):
        return v.as_long()
    return v


def and_(a, b):
    if a is True:
        return b
    if b is True:
        return a
    if a is False or b is False:
        return False
    return z3.And(a, b)


def or_(a, b):
    if a is False:
        return b
    if b is False:
        return a
    if a is True or b is True:
        return True
    return z3.Or(a, b)


def not_(a):
    if isinstance(a, bool):
        return not a
    return z3.Not(a)


def ite(c, a, b, bits=None):
    """scalar if-then-else; a,b python ints/bools or z3"""
    if c is True:
        return a
    if c is False:
        return b
    if not is_sym(a) and not is_sym(b) and a == b and type(a) == type(b):
        return a
    if isinstance(a, bool) or isinstance(b, bool) or (is_sym(a) and z3.is_bool(a)) or (is_sym(b) and z3.is_bool(b)):
        return z3.If(c, zbool(a), zbool(b))
    if bits is None:
        if is_sym(a):
            bits = a.size()
        elif is_sym(b):
            bits = b.size()
        else:
            raise Unsupported('ite of concrete integers of unknown width')
    return z3.If(c, bv(a, bits), bv(b, bits))
