# Exploration loop, panic unwinding, lenient global init, result collection.
import time
import collections
import z3
from .values import *
from .engine import *
from .ops import K, Builtin
from .ops2 import Ops2


class SharedState(State):
    pass


class Executor(Ops2):
    def __init__(self, srv, opts=None):
        super().__init__(srv, opts)
        from . import models
        self.models = dict(models.MODELS)
        self.pkg_models = dict(models.PKG_MODELS)
        self.iface_models = dict(models.IFACE_MODELS)
        self.stubs = {}
        self.noop_prefixes = tuple(self.opts.get('_noops') or ())
        for it in (self.opts.get('_noopifaces') or ()):
            self.iface_models[it] = models.iface_noop
        self.api_call = lambda ex, st, args, ins, fn: models.api_call(ex, st, args, ins, fn)
        self.lenient = False
        self.initing = []
        self.reset_results()

    def reset_results(self):
        self.asserts = collections.OrderedDict()   # label -> dict(checked, proved, violations[], unknown)
        self.reach = collections.OrderedDict()     # label -> witness
        self.ends = collections.Counter()
        self.inconclusive = []                     # (kind, info)
        self.panics = []                           # uncaught panics: witness dicts
        self.queries_log = []                      # smt2 strings of deciding queries
        self.reach_count = {}
        self.deadline = None

    # ---------- running ----------
    def run_harness(self, name, budget_s=600):
        self.reset_results()
        self.solver.reset()
        self.solver.set('timeout', int(self.opts.get('query_timeout_ms', 20000)))
        fid = self.srv.lookup(name)
        fn = self.get_func(fid)
        if fn['nparams'] != 0:
            raise Unsupported('harness must take no parameters')
        st = State()
        fr = Frame(fn, fn['nlocals'])
        st.frames.append(fr)
        self.funcs_encoded[fn['name']] = fn['ninstr']
        self.deadline = time.time() + budget_s
        self.explore(st)

    def explore(self, st):
        if self.deadline and time.time() > self.deadline:
            self.end_path(st, 'budget', 'time')
            return
        try:
            self.run_path(st)
            self.end_path(st, 'done', '')
        except NeedFork as nf:
            try:
                self.flush_asserts(st)
            except PathEnd as pe:
                self.end_path(st, pe.kind, pe.info)
                return
            self.stats['forks'] += 1
            if self.opts.get('fork_sites') is not None:
                w = self.where(st)
                self.opts['fork_sites'][w] = self.opts['fork_sites'].get(w, 0) + 1
            base_dec = st.decisions[:st.dpos]
            st.pending_known = []
            n = len(nf.feas)
            for k, alt in enumerate(nf.feas):
                child = st if k == n - 1 else st.copy()
                child.decisions = base_dec + [alt]
                child.dpos = 0
                cond = nf.conds[alt]
                child.model = nf.models.get(alt)
                self.solver.push()
                if cond is not True:
                    self.solver.add(cond)
                    child.pc.append(cond)
                try:
                    self.explore(child)
                finally:
                    self.solver.pop()
        except PathEnd as pe:
            self.end_path(st, pe.kind, pe.info)
        except Unsupported as u:
            self.end_path(st, 'unsupported', str(u) + self.where(st))
        except (TypeError, IndexError, AttributeError, KeyError, ValueError) as e:
            import traceback
            tb = traceback.format_exc().strip().splitlines()
            self.end_path(st, 'engine-error', '%s: %s%s | stack %s | %s' % (type(e).__name__, e, self.where(st), self.stack(st)[-6:], ' / '.join(x.strip() for x in tb[-4:-1])))

    def where(self, st):
        if not st.frames:
            return ''
        f = st.frames[-1]
        try:
            ins = f.fn['blocks'][f.block][f.ip]
            return ' @ %s %s [%s]' % (f.fn['name'], ins.get('pos', ''), ins['o'])
        except Exception:
            return ' @ ' + f.fn['name']

    def stack(self, st):
        return [f.fn['name'] for f in st.frames[-8:]]

    def end_path(self, st, kind, info):
        if kind != 'infeasible' and st.pending_asserts:
            try:
                self.flush_asserts(st)
            except PathEnd:
                pass
        self.stats['paths'] += 1
        self.stats['steps'] += st.nsteps
        self.ends[kind] += 1
        if kind == 'done':
            if st.panic is not None:
                self.uncaught_panic(st)
            return
        if kind == 'infeasible':
            return
        if kind == 'assumed-away':
            return
        if len(self.inconclusive) < 50:
            self.inconclusive.append((kind, info))

    def run_path(self, st):
        opts = self.opts
        max_steps = opts.get('max_steps', 2000000)
        while st.frames:
            f = st.frames[-1]
            if f.unwinding:
                self.unwind_step(st, f)
                continue
            ins = f.fn['blocks'][f.block][f.ip]
            st.dpos = 0
            st.nsteps += 1
            self.cur_state = st
            if st.nsteps & 1023 == 0:
                if st.nsteps > max_steps:
                    raise PathEnd('budget', 'max steps')
                if self.deadline and time.time() > self.deadline:
                    raise PathEnd('budget', 'time')
            try:
                r = ins['h'](st, f, ins)
            except GoPanic as gp:
                if st.decisions:
                    st.decisions = []
                for (cid, c, v) in st.pending_known:
                    st.known[cid] = (c, v)
                st.pending_known = []
                if self.lenient:
                    raise
                self.start_panic(st, gp)
                continue
            if st.decisions:
                st.decisions = []
            if st.pending_known:
                for (cid, c, v) in st.pending_known:
                    st.known[cid] = (c, v)
                st.pending_known = []
            if r is None:
                f.ip += 1

    # ---------- panics ----------
    def start_panic(self, st, gp):
        pos = gp.pos or ''
        st.panic = PanicInfo(gp.kind, gp.value, pos, self.stack(st))
        st.frames[-1].unwinding = True

    def unwind_step(self, st, f):
        if f.defers:
            callee, args, dins = f.defers.pop()
            n = len(st.frames)
            try:
                self.invoke(st, f, callee, args, None, dins, advance=False)
            except GoPanic as gp:
                st.panic = PanicInfo(gp.kind, gp.value, gp.pos, self.stack(st))
                return
            if len(st.frames) > n:
                st.frames[-1].deferred_by = True
            return
        if st.panic is None:
            # recovered: function returns through its recover block
            f.unwinding = False
            if f.fn.get('recover', -1) >= 0:
                f.prev = f.block
                f.block = f.fn['recover']
                f.ip = 0
            else:
                res = f.fn['res']
                if len(res) == 0:
                    r = None
                elif len(res) == 1:
                    r = self.zero(res[0])
                else:
                    r = tuple(self.zero(t) for t in res)
                self.do_return(st, r)
            return
        st.frames.pop()
        if f.is_go or not st.frames:
            # uncaught panic terminates the program
            st.frames = []
            return
        st.frames[-1].unwinding = True

    def op_RunDefers(self, st, f, ins):
        if f.defers:
            callee, args, dins = f.defers.pop()
            n = len(st.frames)
            self.invoke(st, f, callee, args, None, dins, advance=False)
            if len(st.frames) > n:
                st.frames[-1].deferred_by = True
            return 'ctl'
        return None

    def call_common(self, st, f, ins, mode):
        n = len(st.frames)
        r = super().call_common(st, f, ins, mode)
        if mode == 'go' and len(st.frames) > n:
            st.frames[-1].is_go = True
        return r

    def uncaught_panic(self, st):
        p = st.panic
        label = 'panic:%s@%s' % (p.kind, p.pos)
        if p.kind == 'explicit':
            v = p.value
            desc = ''
            if isinstance(v, Iface) and isinstance(v.v, bytes):
                desc = v.v.decode('utf-8', 'replace')[:80]
            label = 'panic:explicit(%s)@%s' % (desc, p.pos)
        self.record_assert(st, label, False, is_panic=True, extra={'stack': p.stack})

    # ---------- assertions ----------
    def record_assert(self, st, label, cond, is_panic=False, extra=None):
        """harness assertions are staged and decided together at the next change of the path
        condition (fork, assume, path end): one query for a run of assertions, individual
        queries only if the joint query is not unsat."""
        c = simp_bool(cond)
        if c is True:
            a = self.asserts.setdefault(label, dict(checked=0, proved=0, violations=[], unknown=0, panic=is_panic))
            a['checked'] += 1
            a['proved'] += 1
            return True
        if is_panic or c is False:
            self.flush_asserts(st)
            return self.decide_assert(st, label, c, is_panic, extra)
        st.pending_asserts.append((label, c))
        return None

    def flush_asserts(self, st):
        pend = st.pending_asserts
        if not pend:
            return
        st.pending_asserts = []
        if len(pend) > 1:
            disj = z3.Or([z3.Not(c) for (_, c) in pend])
            hit = st.model is not None and z3.is_true(st.model.eval(disj, model_completion=True))
            if not hit:
                # the joint query is an optimisation: undecided quickly = decide the assertions one by one
                r, m = self.check(disj, st, no_fallback=True)
                if r == 'unsat':
                    for (label, c) in pend:
                        a = self.asserts.setdefault(label, dict(checked=0, proved=0, violations=[], unknown=0, panic=False))
                        a['checked'] += 1
                        a['proved'] += 1
                    if self.opts.get('log_queries') and len(self.queries_log) < self.opts.get('max_logged', 40):
                        self.log_query(st, disj, '|'.join(sorted(set(l for l, _ in pend)))[:200], r)
                    return
        for (label, c) in pend:
            ok = self.decide_assert(st, label, c, False, None)
            if ok is not True:
                # continue under the assumption that the assertion holds
                r, m = self.check(c, st)
                if r == 'unsat':
                    raise PathEnd('assumed-away')
                st.model = m
                self.solver.add(c)
                st.pc.append(c)

    def decide_assert(self, st, label, c, is_panic=False, extra=None):
        a = self.asserts.setdefault(label, dict(checked=0, proved=0, violations=[], unknown=0, panic=is_panic))
        a['checked'] += 1
        if c is True:
            a['proved'] += 1
            return True
        neg = True if c is False else z3.Not(c)
        if neg is not True and st.model is not None and z3.is_true(st.model.eval(neg, model_completion=True)):
            r, m = 'sat', st.model
            self.stats['model_hits'] = self.stats.get('model_hits', 0) + 1
        else:
            r, m = self.check(None if neg is True else neg, st)
            if neg is True and r == 'sat':
                st.model = m
        if self.opts.get('log_queries') and len(self.queries_log) < self.opts.get('max_logged', 40):
            self.log_query(st, neg, label, r)
        if r == 'unsat':
            a['proved'] += 1
            return True
        if r == 'unknown':
            a['unknown'] += 1
            self.inconclusive.append(('unknown', 'solver unknown on assertion ' + label))
            return None
        if len(a['violations']) < self.opts.get('max_witnesses', 3):
            w = self.witness(st, m, label, 'panic' if is_panic else 'assert')
            if extra:
                w.update(extra)
            a['violations'].append(w)
        else:
            a['more'] = a.get('more', 0) + 1
        return False

    def log_query(self, st, neg, label, verdict):
        s = z3.Solver()
        for c in st.pc:
            s.add(c)
        if neg is not True:
            s.add(neg)
        self.queries_log.append((label, verdict, s.to_smt2()))

    def witness(self, st, m, label, kind):
        nd = []
        for (k, e) in st.nondets:
            if isinstance(e, (int, bool)):
                nd.append([k, e])
                continue
            v = m.eval(e, model_completion=True)
            if z3.is_bool(v):
                nd.append([k, z3.is_true(v)])
            else:
                nd.append([k, str(v.as_long())])
        ufs = []
        for (name, args, res) in st.ufapps:
            ufs.append([name, [self.mval(m, a) for a in args], [self.mval(m, r) for r in res]])
        return dict(label=label, kind=kind, nondet=nd, uf=ufs, maporder=st.maporder, tier=self.opts.get('tier', 'quick'),
                    trace=[d for d in st.trace[-40:]])

    def mval(self, m, e):
        if isinstance(e, bool):
            return e
        if isinstance(e, int):
            return str(e)
        v = m.eval(e, model_completion=True)
        if z3.is_bool(v):
            return z3.is_true(v)
        return str(v.as_long())

    # ---------- globals ----------
    def init_global(self, st, gid):
        g = self.srv.glob(gid)
        pkg = g['pkg']
        if pkg not in self.global_inited:
            self.global_inited.add(pkg)
            self.init_package(pkg)
        cell = ('g', gid)
        if cell not in self.shared_heap:
            et = self.T(g['t'])['elem']
            self.shared_heap[cell] = self.zero(et)

    def init_package(self, pkg):
        try:
            fid = self.srv.lookup(pkg + '.init')
        except Exception:
            return
        fn = self.get_func(fid)
        if not fn.get('hasbody'):
            return
        # globals stored by init start out as poison (unknown) until the store executes
        for b in fn['blocks']:
            for ins in b:
                if ins['o'] == 'Store' and isinstance(ins['a'], K) and isinstance(ins['a'].v, Ptr):
                    c = ins['a'].v.cell
                    if isinstance(c, tuple) and c[0] == 'g' and c not in self.shared_heap:
                        if self.srv.glob(c[1])['short'] == 'init$guard':
                            continue
                        self.shared_heap[c] = Poison('init of ' + pkg)
        ist = SharedState()
        ist.heap = self.shared_heap
        fr = Frame(fn, fn['nlocals'])
        ist.frames.append(fr)
        saved = self.lenient, self.deadline
        self.lenient = True
        self.deadline = None
        self.initing.append(pkg)
        try:
            self.run_lenient(ist, pkg)
        finally:
            self.lenient, self.deadline = saved
            self.initing.pop()

    def new_cell(self, st, val):
        if st is None or isinstance(st, SharedState):
            c = self.shared_next
            self.shared_next -= 1
            self.shared_heap[c] = val
            return c
        return super().new_cell(st, val)

    def run_lenient(self, st, pkg):
        steps = 0
        self.cur_state = None
        while st.frames:
            f = st.frames[-1]
            steps += 1
            if steps > self.opts.get('init_steps', 300000):
                return
            if f.unwinding:
                # a panic inside init evaluation: abandon the call
                self.abandon_call(st)
                continue
            ins = f.fn['blocks'][f.block][f.ip]
            st.dpos = 0
            try:
                if ins['o'] == 'Call' and not ins.get('invoke'):
                    fnv = ins['fn']
                    if isinstance(fnv, K) and isinstance(fnv.v, Closure):
                        cf = self.srv.func(fnv.v.fn)
                        if cf['short'] == 'init' and cf.get('pkg') != pkg and len(st.frames) == 1:
                            f.ip += 1
                            continue
                r = ins['h'](st, f, ins)
                st.decisions = []
                if r is None:
                    f.ip += 1
            except (Unsupported, GoPanic, PathEnd, NeedFork, KeyError, TypeError, AttributeError, IndexError, ValueError) as e:
                st.decisions = []
                if len(st.frames) > 1:
                    self.abandon_call(st)
                    continue
                if ins['o'] in ('If', 'Jump', 'Return', 'Panic'):
                    return
                if 'r' in ins:
                    f.locals[ins['r']] = Poison(str(e)[:60])
                elif ins['o'] == 'Store':
                    try:
                        self.store(st, self.val(f, ins['a']), Poison(str(e)[:60]))
                    except Exception:
                        pass
                f.ip += 1

    def abandon_call(self, st):
        """drop frames above the init frame; the pending call result becomes poison"""
        while len(st.frames) > 1:
            fr = st.frames.pop()
            dest = fr.dest
        st.panic = None
        top = st.frames[-1]
        top.unwinding = False
        if dest is not None:
            top.locals[dest] = Poison('abandoned call')
