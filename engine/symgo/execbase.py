# Executor base: types, zero values, memory, equality, choose.
import time
import z3
from .values import *
from .engine import *


import os as _os
DUMP_LAST = _os.environ.get('VERIF_DUMP_LAST')


class ExecBase:
    def __init__(self, srv, opts=None):
        self.srv = srv
        self.opts = opts or {}
        self.solver = z3.Solver()
        self.solver.set('timeout', int(self.opts.get('query_timeout_ms', 20000)))
        self.shared_heap = {}      # cells created by global init (read-through)
        self.shared_next = -1
        self.global_inited = set()  # packages whose init was evaluated
        self.stats = dict(paths=0, forks=0, queries=0, sat=0, unsat=0, unknown=0, solver_s=0.0,
                          steps=0, pruned=0)
        self.fresh = 0
        self.ufs = {}
        self.funcs_encoded = {}
        self.models_used = set()
        self.stubs_used = set()
        self.tcache = {}
        self.cur_state = None
        self.blobs = {}            # z3 ast ids of byte terms that are slices of a wider term

    # ---------- types ----------
    def T(self, tid):
        t = self.tcache.get(tid)
        if t is None:
            t = self.srv.type(tid)
            k = t['k']
            if k in INT_KINDS:
                t['bits'], t['signed'] = INT_KINDS[k]
                t['cls'] = 'int'
            elif k in ('bool', 'untyped bool'):
                t['cls'] = 'bool'
            elif k in ('string', 'untyped string'):
                t['cls'] = 'string'
            elif k in ('float32', 'float64', 'untyped float', 'complex128', 'complex64'):
                t['cls'] = 'float'
            else:
                t['cls'] = k
            t['isbig'] = (t.get('named') == 'Int' and t.get('npkg') == 'math/big')
            self.tcache[tid] = t
        return t

    def zero(self, tid):
        t = self.T(tid)
        z = t.get('zero', self)
        if z is not self:
            return z
        c = t['cls']
        if c == 'int':
            z = 0
        elif c == 'bool':
            z = False
        elif c == 'string':
            z = b''
        elif c == 'float':
            z = 0.0
        elif c == 'struct':
            if t['isbig']:
                z = Big(0)
            else:
                z = tuple(self.zero(f['t']) for f in t['fields'])
        elif c == 'array':
            e = self.zero(t['elem'])
            z = (e,) * t['len']
        elif c == 'slice':
            z = NILSLICE
        elif c == 'tuple':
            z = tuple(self.zero(x) for x in t['tuple'])
        else:
            z = None   # ptr, map, chan, func, iface, unsafeptr, nil
        t['zero'] = z
        return z

    # ---------- heap ----------
    def new_cell(self, st, val):
        if st is None:
            c = self.shared_next
            self.shared_next -= 1
            self.shared_heap[c] = val
            return c
        c = st.next_cell
        st.next_cell += 1
        st.heap[c] = val
        return c

    def cell_get(self, st, cell):
        if st is not None:
            v = st.heap.get(cell, self)
            if v is not self:
                return v
        if cell in self.shared_heap:
            return self.shared_heap[cell]
        if isinstance(cell, tuple) and cell[0] == 'g':
            self.init_global(st, cell[1])
            if st is not None and cell in st.heap:
                return st.heap[cell]
            return self.shared_heap[cell]
        raise Unsupported('dangling cell %r' % (cell,))

    def cell_set(self, st, cell, val):
        if st is None:
            self.shared_heap[cell] = val
        else:
            st.heap[cell] = val

    def load(self, st, p, pos='', bits=None):
        if p is None:
            raise GoPanic('nil-deref', None, pos)
        if isinstance(p, (Opaque, Poison)):
            raise Unsupported('load through opaque pointer %r' % (p,))
        v = self.cell_get(st, p.cell)
        for i in p.path:
            if isinstance(v, Poison):
                return v
            if isinstance(i, int):
                v = v[i]
            else:
                v = self.sym_select(v, i, bits)
        return v

    def sym_select(self, arr, i, bits=None):
        """arr: tuple of scalars, i: z3 bv index (already bounds-checked)"""
        n = len(arr)
        r = arr[n - 1]
        for k in range(n - 2, -1, -1):
            e = arr[k]
            if isinstance(e, (tuple, Ptr, Slice, Iface, Big)) or e is None:
                raise Unsupported('symbolic index into non-scalar array')
            r = ite(i == k, e, r, bits)
        return r

    def store(self, st, p, x, pos='', bits=None):
        if p is None:
            raise GoPanic('nil-deref', None, pos)
        if isinstance(p, (Opaque, Poison)):
            raise Unsupported('store through opaque pointer')
        if not p.path:
            self.cell_set(st, p.cell, x)
            return
        v = self.cell_get(st, p.cell)
        self.cell_set(st, p.cell, self._upd(v, p.path, 0, x, bits))

    def _upd(self, v, path, k, x, bits=None):
        i = path[k]
        if isinstance(v, Poison):
            return v
        if isinstance(i, int):
            sub = x if k + 1 == len(path) else self._upd(v[i], path, k + 1, x, bits)
            return v[:i] + (sub,) + v[i + 1:]
        # symbolic index: scalar elements only, last path element only
        if k + 1 != len(path):
            raise Unsupported('symbolic index in the middle of a store path')
        out = []
        for j, e in enumerate(v):
            if isinstance(e, (tuple, Ptr, Slice, Iface, Big)) or e is None:
                raise Unsupported('symbolic index store into non-scalar array')
            out.append(ite(i == j, x, e, bits))
        return tuple(out)

    # ---------- equality ----------
    def eq(self, st, a, b, tid):
        """Go == on values of static type tid; returns python bool or z3 Bool"""
        t = self.T(tid)
        c = t['cls']
        if isinstance(a, Poison) or isinstance(b, Poison):
            raise Unsupported('compare poison')
        if c == 'int':
            if is_sym(a) or is_sym(b):
                return simp_bool(bv(a, t['bits']) == bv(b, t['bits']))
            return a == b
        if c == 'bool':
            if is_sym(a) or is_sym(b):
                return simp_bool(zbool(a) == zbool(b))
            return a == b
        if c == 'string':
            return self.str_eq(a, b)
        if c == 'float':
            return a == b
        if c == 'struct':
            if t['isbig']:
                raise Unsupported('== on big.Int values')
            r = True
            for i, f in enumerate(t['fields']):
                r = and_(r, self.eq(st, a[i], b[i], f['t']))
                if r is False:
                    return False
            return r
        if c == 'array':
            if t['len'] > 1 and self.T(t['elem']).get('bits') == 8:
                r = self.bytes_eq(a, b)
                if r is not None:
                    return r
            r = True
            for i in range(t['len']):
                r = and_(r, self.eq(st, a[i], b[i], t['elem']))
                if r is False:
                    return False
            return r
        if c == 'iface':
            return self.iface_eq(st, a, b)
        if c == 'slice':
            # only comparison with nil is legal
            if b.base is None and b.cap == 0:
                return a.base is None
            if a.base is None and a.cap == 0:
                return b.base is None
            raise Unsupported('slice ==')
        if c in ('ptr', 'map', 'chan', 'func', 'unsafeptr', 'nil'):
            if a is None or b is None:
                return a is None and b is None
            if isinstance(a, Ptr) and isinstance(b, Ptr):
                if a.cell != b.cell or len(a.path) != len(b.path):
                    return False
                r = True
                for x, y in zip(a.path, b.path):
                    if isinstance(x, int) and isinstance(y, int):
                        if x != y:
                            return False
                    else:
                        r = and_(r, simp_bool(bv(x, 64) == bv(y, 64)))
                return r
            return a == b
        raise Unsupported('eq on type ' + t['s'])

    def bytes_eq(self, la, lb):
        """equality of two equally long byte sequences as one wide comparison when
        slices of wider terms are involved (keeps hash equalities whole); else None"""
        if len(la) != len(lb):
            return False
        blobs = self.blobs
        if not any((is_sym(x) and x.get_id() in blobs) for x in la) and \
                not any((is_sym(x) and x.get_id() in blobs) for x in lb):
            return None
        A = z3.simplify(z3.Concat(*[bv(x, 8) for x in la])) if len(la) > 1 else bv(la[0], 8)
        B = z3.simplify(z3.Concat(*[bv(x, 8) for x in lb])) if len(lb) > 1 else bv(lb[0], 8)
        return simp_bool(A == B)

    def str_eq(self, a, b):
        if isinstance(a, bytes) and isinstance(b, bytes):
            return a == b
        if isinstance(a, StrAtom) or isinstance(b, StrAtom):
            if isinstance(a, StrAtom) and isinstance(b, StrAtom):
                return a.name == b.name
            return False
        if isinstance(a, SymStr) or isinstance(b, SymStr):
            la = a.elems if isinstance(a, SymStr) else tuple(a)
            lb = b.elems if isinstance(b, SymStr) else tuple(b)
            if len(la) != len(lb):
                return False
            if len(la) > 1:
                r = self.bytes_eq(la, lb)
                if r is not None:
                    return r
            r = True
            for x, y in zip(la, lb):
                if is_sym(x) or is_sym(y):
                    r = and_(r, simp_bool(bv(x, 8) == bv(y, 8)))
                elif x != y:
                    return False
            return r
        raise Unsupported('string eq %r %r' % (type(a), type(b)))

    def iface_eq(self, st, a, b):
        if a is None or b is None:
            return a is None and b is None
        if isinstance(a, Opaque) or isinstance(b, Opaque):
            return a == b
        if a.t != b.t:
            return False
        tk = self.T(a.t)['cls']
        if tk in ('slice', 'map', 'func'):
            raise GoPanic('runtime-error', None, 'comparing uncomparable type')
        return self.eq(st, a.v, b.v, a.t)

    # ---------- solver / choose ----------
    def check(self, extra=None, st=None, no_fallback=False):
        """incremental check first (short cap); if undecided and the path condition is
        known (st), a fresh non-incremental solver with full preprocessing decides."""
        t0 = time.time()
        self.stats['queries'] += 1
        fast_ms = int(self.opts.get('fast_timeout_ms', 3000))
        full_ms = int(self.opts.get('query_timeout_ms', 20000))
        st = st if st is not None else self.cur_state
        self.solver.set('timeout', fast_ms if st is not None else full_ms)
        if extra is not None:
            self.solver.push()
            self.solver.add(extra)
        if DUMP_LAST:
            open(DUMP_LAST, 'w').write(self.solver.to_smt2())
        r = self.solver.check()
        m = None
        if r == z3.sat:
            m = self.solver.model()
        if extra is not None:
            self.solver.pop()
        if r == z3.unknown and st is not None and not no_fallback:
            self.stats['fresh_solver'] = self.stats.get('fresh_solver', 0) + 1
            s2 = z3.Solver()
            s2.set('timeout', full_ms)
            for c in st.pc:
                s2.add(c)
            if extra is not None:
                s2.add(extra)
            r = s2.check()
            if r == z3.sat:
                m = s2.model()
        dt = time.time() - t0
        self.stats['solver_s'] += dt
        import os
        if dt > 5 and os.environ.get('VERIF_DUMP_SLOW') and st is not None:
            s3 = z3.Solver()
            for c in st.pc:
                s3.add(c)
            if extra is not None:
                s3.add(extra)
            self.stats['dumped'] = self.stats.get('dumped', 0) + 1
            open(os.path.join(os.environ['VERIF_DUMP_SLOW'], 'slow_%d_%s_%.0fs.smt2' % (self.stats['dumped'], r, dt)), 'w').write(s3.to_smt2())
        if r == z3.sat:
            self.stats['sat'] += 1
            return 'sat', m
        if r == z3.unsat:
            self.stats['unsat'] += 1
            return 'unsat', None
        self.stats['unknown'] += 1
        return 'unknown', None

    def choose(self, st, conds, maporder=False):
        """pick one of the alternatives; conds are python bools or z3 Bools that
        partition the current path condition. Forks when several are feasible."""
        if st.dpos < len(st.decisions):
            i = st.decisions[st.dpos]
            st.dpos += 1
            return i
        feas = []
        cs = []
        for c in conds:
            cs.append(simp_bool(c))
        if any(c is True for c in cs):
            feas = [i for i, c in enumerate(cs) if c is True]
            if not maporder:
                feas = feas[:1]
        else:
            cand = [i for i, c in enumerate(cs) if c is not False]
            if len(cand) == 1 and not self.opts.get('paranoid'):
                # alternatives partition the space, the others are impossible
                feas = cand
            else:
                M = st.model
                models = {}
                pending = []
                for i in cand:
                    if M is not None and z3.is_true(M.eval(cs[i], model_completion=True)):
                        feas.append(i)
                        models[i] = M
                    else:
                        pending.append(i)
                for n, i in enumerate(pending):
                    if not feas and n == len(pending) - 1:
                        feas.append(i)   # path condition is satisfiable, so the last one must be
                        break
                    r, m = self.check(cs[i], st)
                    if r != 'unsat':
                        feas.append(i)
                        models[i] = m
                feas.sort()
                if not feas:
                    raise PathEnd('infeasible')
                if len(feas) == 1:
                    if models.get(feas[0]) is not None:
                        st.model = models[feas[0]]
                    st.decisions.append(feas[0])
                    st.dpos += 1
                    return feas[0]
                raise NeedFork(feas, cs, models)
        if not feas:
            raise PathEnd('infeasible')
        if len(feas) == 1:
            st.decisions.append(feas[0])
            st.dpos += 1
            return feas[0]
        raise NeedFork(feas, cs, {i: st.model for i in feas})

    def add_constraint(self, st, c):
        """add an assumption to the path condition (solver and state)"""
        self.flush_asserts(st)
        self.solver.add(c)
        st.pc.append(c)
        if st.model is not None and not z3.is_true(st.model.eval(c, model_completion=True)):
            st.model = None

    def branch(self, st, cond):
        """returns python bool for a possibly symbolic condition (forking)"""
        c = simp_bool(cond)
        if isinstance(c, bool):
            return c
        cid = c.get_id()
        k = st.known.get(cid)
        if k is not None:
            return k[1]
        r = self.choose(st, [c, z3.Not(c)]) == 0
        st.pending_known.append((cid, c, r))
        return r

    def concretize(self, st, v, bits, limit=64, what='value'):
        """case-split a symbolic integer over its feasible values (bounded)"""
        v = simp_int(v)
        if isinstance(v, int):
            return v
        if st.dpos < len(st.decisions):
            val = st.decisions[st.dpos]
            st.dpos += 1
            return val
        vals = []
        self.solver.push()
        try:
            while True:
                r, m = self.check()
                if r == 'unsat':
                    break
                if r != 'sat':
                    raise Unsupported('unknown while enumerating ' + what)
                x = m.eval(v, model_completion=True).as_long()
                vals.append(x)
                if len(vals) > limit:
                    raise Unsupported('more than %d feasible values for %s' % (limit, what))
                self.solver.add(v != x)
        finally:
            self.solver.pop()
        if not vals:
            raise PathEnd('infeasible')
        vals.sort()
        if len(vals) == 1:
            st.decisions.append(vals[0])
            st.dpos += 1
            return vals[0]
        raise NeedFork(vals, {x: (v == x) for x in vals})

    def fresh_name(self, prefix):
        self.fresh += 1
        return '%s!%d' % (prefix, self.fresh)
