# SSA instruction semantics.
import z3
from .values import *
from .engine import *
from .execbase import ExecBase


def mul_uf(X, Y):
    w = X.size()
    f = z3.Function('mul%d' % w, z3.BitVecSort(w), z3.BitVecSort(w), z3.BitVecSort(w))
    if X.get_id() > Y.get_id():
        X, Y = Y, X
    return f(X, Y)


class K:
    """prepared constant operand"""
    __slots__ = ('v',)

    def __init__(self, v):
        self.v = v


class Builtin:
    __slots__ = ('name',)

    def __init__(self, name):
        self.name = name


def go_div(x, y):
    q = abs(x) // abs(y)
    if (x < 0) != (y < 0):
        q = -q
    return q


def lex_lt(a, b, or_equal=False):
    """lexicographic a<b (or a<=b) over byte element tuples"""
    n = min(len(a), len(b))
    if len(a) < len(b):
        res = True
    elif len(a) == len(b):
        res = or_equal
    else:
        res = False
    for i in range(n - 1, -1, -1):
        x, y = a[i], b[i]
        if is_sym(x) or is_sym(y):
            lt = z3.ULT(bv(x, 8), bv(y, 8))
            e = bv(x, 8) == bv(y, 8)
            res = or_(lt, and_(e, res))
        else:
            if x < y:
                res = True
            elif x > y:
                res = False
    return res


class Ops(ExecBase):
    # ---------- function preparation ----------
    VAL_FIELDS = ('x', 'y', 'i', 'a', 'm', 'k', 'ch', 'len', 'cap', 'lo', 'hi', 'max', 'fn', 'size')
    LIST_FIELDS = ('args', 'bind', 'edges', 'xs')

    def get_func(self, fid):
        fn = self.srv.func(fid)
        if 'prepared' not in fn:
            self.prep_func(fn)
        return fn

    def prep_val(self, o):
        if o is None or isinstance(o, int):
            return o
        if 'g' in o:
            return K(Ptr(('g', o['g']), ()))
        if 'f' in o:
            return K(Closure(o['f'], ()))
        if 'b' in o:
            return K(Builtin(o['b']))
        c = o['c']
        t = self.T(o['t'])
        if c is None:
            return K(self.zero(o['t']))
        if c is True or c is False:
            return K(c)
        if c == 's':
            return K(bytes.fromhex(o['sx']))
        if c == 'i':
            v = int(o['iv'])
            if t['cls'] == 'int':
                return K(wrap(v, t['bits'], t['signed']))
            if t['cls'] == 'float':
                return K(float(v))
            return K(v)
        if c == 'f':
            return K(o['fv'])
        return K(Poison('const'))

    def prep_func(self, fn):
        fn['prepared'] = True
        if not fn.get('hasbody'):
            return
        n = 0
        for b in fn['blocks']:
            for ins in b:
                n += 1
                for k in self.VAL_FIELDS:
                    if k in ins:
                        ins[k] = self.prep_val(ins[k])
                for k in self.LIST_FIELDS:
                    if k in ins:
                        ins[k] = [self.prep_val(x) for x in ins[k]]
                if 'states' in ins:
                    for s in ins['states']:
                        s['ch'] = self.prep_val(s['ch'])
                        s['v'] = self.prep_val(s['v'])
                ins['h'] = getattr(self, 'op_' + ins['o'])
        fn['ninstr'] = n

    def val(self, f, o):
        if type(o) is int:
            return f.locals[o]
        return o.v

    # ---------- simple instructions ----------
    def op_Alloc(self, st, f, ins):
        c = self.new_cell(st, self.zero(ins['et']))
        f.locals[ins['r']] = Ptr(c, ())

    def op_Store(self, st, f, ins):
        a = self.val(f, ins['a'])
        bits = None
        if isinstance(a, Ptr) and a.path and not isinstance(a.path[-1], int):
            bits = self.T(ins['vt']).get('bits')
        self.store(st, a, self.val(f, ins['x']), ins.get('pos', ''), bits)

    def op_Phi(self, st, f, ins):
        # evaluate all phis of the block in parallel
        blk = f.fn['blocks'][f.block]
        k = f.fn['preds'][f.block].index(f.prev)
        vals = []
        j = f.ip
        while j < len(blk) and blk[j]['o'] == 'Phi':
            vals.append(self.val(f, blk[j]['edges'][k]))
            j += 1
        for n, v in enumerate(vals):
            f.locals[blk[f.ip + n]['r']] = v
        f.ip = j
        return 'ctl'

    def op_Jump(self, st, f, ins):
        self.goto(st, f, ins['s'], False)
        return 'ctl'

    def op_If(self, st, f, ins):
        c = self.val(f, ins['x'])
        if isinstance(c, Poison):
            raise Unsupported('branch on poison')
        c = simp_bool(c)
        if isinstance(c, bool):
            self.goto(st, f, ins['s'][0 if c else 1], False)
        else:
            k = st.known.get(c.get_id())
            if k is not None:
                self.goto(st, f, ins['s'][0 if k[1] else 1], False)
                return 'ctl'
            i = self.choose(st, [c, z3.Not(c)])
            st.pending_known.append((c.get_id(), c, i == 0))
            self.goto(st, f, ins['s'][i], True)
        return 'ctl'

    def goto(self, st, f, target, symbolic):
        if symbolic:
            if f.visits is None:
                f.visits = {}
            key = (f.block, target)
            n = f.visits.get(key, 0) + 1
            f.visits[key] = n
            if n > self.opts.get('unwind', 8):
                raise PathEnd('unwind', '%s block %d' % (f.fn['name'], f.block))
        f.prev = f.block
        f.block = target
        f.ip = 0

    def op_Return(self, st, f, ins):
        xs = ins['xs']
        if len(xs) == 0:
            r = None
        elif len(xs) == 1:
            r = self.val(f, xs[0])
        else:
            r = tuple(self.val(f, x) for x in xs)
        self.do_return(st, r)
        return 'ctl'

    def name_big_terms(self, st, r, limit):
        """//verif:opt name_terms=N: a machine-word result of a call whose term has more than N nodes is
        replaced by a fresh constant defined equal to it (the definition joins the path condition). The
        incremental solver then reasons about the callers' arithmetic over that constant instead of
        through the callee's multiplications and divisions; nothing is abstracted away."""
        if isinstance(r, tuple):
            return tuple(self.name_big_terms(st, x, limit) for x in r)
        if not (is_sym(r) and z3.is_bv(r)) or z3.is_const(r):
            return r
        seen = set()
        stack = [r]
        while stack and len(seen) <= limit:
            t = stack.pop()
            i = t.get_id()
            if i in seen:
                continue
            seen.add(i)
            stack.extend(t.children())
        if len(seen) <= limit:
            return r
        k = z3.BitVec(self.fresh_name('t'), r.size())
        self.add_constraint(st, k == r)
        return k

    def do_return(self, st, r):
        lim = self.opts.get('name_terms')
        if lim and r is not None and len(st.frames) > 1:
            r = self.name_big_terms(st, r, int(lim))
        f = st.frames.pop()
        if st.frames:
            if f.dest is not None:
                st.frames[-1].locals[f.dest] = r
        else:
            st.ghost['result'] = r

    def op_Panic(self, st, f, ins):
        raise GoPanic('explicit', self.val(f, ins['x']), ins.get('pos', ''))

    def op_Extract(self, st, f, ins):
        v = self.val(f, ins['x'])
        f.locals[ins['r']] = v if isinstance(v, Poison) else v[ins['i']]

    def op_Field(self, st, f, ins):
        v = self.val(f, ins['x'])
        f.locals[ins['r']] = v if isinstance(v, Poison) else v[ins['i']]

    def op_FieldAddr(self, st, f, ins):
        p = self.val(f, ins['x'])
        if p is None:
            raise GoPanic('nil-deref', None, ins.get('pos', ''))
        if isinstance(p, (Poison, Opaque)):
            raise Unsupported('field of opaque pointer %r' % (p,))
        f.locals[ins['r']] = Ptr(p.cell, p.path + (ins['i'],))

    def bounds(self, st, i, n, bits, signed, pos, allow_eq=False):
        """check 0 <= i < n (or <= n), panic path otherwise; returns concrete or symbolic i"""
        i = simp_int(i)
        if isinstance(i, int):
            if i < 0 or i > n or (i == n and not allow_eq):
                raise GoPanic('index-out-of-range', None, pos)
            return i
        I = i
        if signed:
            ok = z3.And(I >= 0, (I <= n) if allow_eq else (I < n))
        else:
            ok = z3.ULE(I, n) if allow_eq else z3.ULT(I, n)
        if not self.branch(st, ok):
            raise GoPanic('index-out-of-range', None, pos)
        return i

    def idx_info(self, ins_i, f):
        return self.val(f, ins_i)

    def op_Index(self, st, f, ins):
        x = self.val(f, ins['x'])
        t = self.T(ins['xt'])
        i = self.val(f, ins['i'])
        if t['cls'] == 'string':
            el = str_elems(x)
            i = self.bounds(st, i, len(el), 64, True, ins.get('pos', ''))
            i = self.fix_index(st, i, el)
            f.locals[ins['r']] = el[i] if isinstance(i, int) else self.sym_select(el, i, 8)
            return
        i = self.bounds(st, i, t['len'], 64, True, ins.get('pos', ''))
        i = self.fix_index(st, i, x)
        f.locals[ins['r']] = x[i] if isinstance(i, int) else self.sym_select(x, i, self.T(ins['t']).get('bits'))

    def fix_index(self, st, i, arr):
        """a symbolic index into non-scalar elements is case-split"""
        if isinstance(i, int):
            return i
        if len(arr) > 0:
            e = arr[0]
            if isinstance(e, (int, bool)) or is_sym(e):
                if len(arr) <= self.opts.get('max_ite_index', 64):
                    return i
        return self.concretize(st, i, 64, what='index')

    def op_IndexAddr(self, st, f, ins):
        x = self.val(f, ins['x'])
        t = self.T(ins['xt'])
        i = self.val(f, ins['i'])
        pos = ins.get('pos', '')
        if isinstance(x, (Poison, Opaque)):
            raise Unsupported('index opaque')
        if t['cls'] == 'slice':
            i = self.bounds(st, i, x.len, 64, True, pos)
            if not isinstance(i, int):
                arr = self.load(st, x.base)
                i = self.fix_index(st, i, arr[x.off:x.off + x.len])
            if isinstance(i, int):
                f.locals[ins['r']] = Ptr(x.base.cell, x.base.path + (x.off + i,))
            else:
                ii = i if x.off == 0 else i + x.off
                f.locals[ins['r']] = Ptr(x.base.cell, x.base.path + (ii,))
        else:  # pointer to array
            if x is None:
                raise GoPanic('nil-deref', None, pos)
            n = self.T(t['elem'])['len']
            i = self.bounds(st, i, n, 64, True, pos)
            if not isinstance(i, int):
                arr = self.load(st, x)
                i = self.fix_index(st, i, arr)
            f.locals[ins['r']] = Ptr(x.cell, x.path + (i,))

    def op_Slice(self, st, f, ins):
        x = self.val(f, ins['x'])
        t = self.T(ins['xt'])
        pos = ins.get('pos', '')
        lo = self.val(f, ins['lo']) if ins['lo'] is not None else 0
        hi = self.val(f, ins['hi']) if ins['hi'] is not None else None
        mx = self.val(f, ins['max']) if ins['max'] is not None else None
        if isinstance(x, (Poison, Opaque)):
            raise Unsupported('slice opaque')
        if t['cls'] == 'string':
            el = str_elems(x)
            n = len(el)
            if hi is None:
                hi = n
            hi = self.slice_bound(st, hi, n, pos)
            lo = self.slice_bound(st, lo, hi, pos)
            f.locals[ins['r']] = mkstr(el[lo:hi])
            return
        if t['cls'] == 'slice':
            base, off, ln, cp = x.base, x.off, x.len, x.cap
        else:
            if x is None:
                raise GoPanic('nil-deref', None, pos)
            base, off = x, 0
            ln = cp = self.T(t['elem'])['len']
        if mx is None:
            mx = cp
        else:
            mx = self.slice_bound(st, mx, cp, pos)
        if hi is None:
            hi = ln
            if hi > mx:
                raise GoPanic('slice-bounds', None, pos)
        else:
            hi = self.slice_bound(st, hi, mx, pos)
        lo = self.slice_bound(st, lo, hi, pos)
        if t['cls'] == 'slice' and base is None:
            f.locals[ins['r']] = NILSLICE
            return
        f.locals[ins['r']] = Slice(base, off + lo, hi - lo, mx - lo)

    def slice_bound(self, st, v, upper, pos):
        """0 <= v <= upper else panic; symbolic v is case-split"""
        v = simp_int(v)
        if isinstance(v, int):
            if v < 0 or v > upper:
                raise GoPanic('slice-bounds', None, pos)
            return v
        ok = z3.And(v >= 0, v <= upper)
        if not self.branch(st, ok):
            raise GoPanic('slice-bounds', None, pos)
        return self.concretize(st, v, 64, limit=self.opts.get('max_split', 64), what='slice bound')

    def op_MakeSlice(self, st, f, ins):
        ln = self.val(f, ins['len'])
        cp = self.val(f, ins['cap'])
        pos = ins.get('pos', '')
        et = self.T(self.T(ins['t'])['elem'])
        ln = self.make_size(st, ln, pos)
        cp = self.make_size(st, cp, pos)
        if ln > cp:
            raise GoPanic('makeslice-len', None, pos)
        if cp > self.opts.get('max_alloc', 1 << 20):
            raise PathEnd('alloc', 'make of %d elements at %s' % (cp, pos))
        self.note_alloc(st, cp, pos)
        c = self.new_cell(st, (self.zero(et['id']),) * cp)
        f.locals[ins['r']] = Slice(Ptr(c, ()), 0, ln, cp)

    def note_alloc(self, st, n, pos):
        st.ghost['max_alloc'] = max(st.ghost.get('max_alloc', 0), n)

    def make_size(self, st, v, pos):
        v = simp_int(v)
        lim = st.ghost.get('alloc_limit')
        if isinstance(v, int):
            if v < 0:
                raise GoPanic('makeslice-len', None, pos)
            if lim is not None and v > lim:
                raise GoPanic('alloc-above-limit', None, pos)
            return v
        if not self.branch(st, v >= 0):
            raise GoPanic('makeslice-len', None, pos)
        if lim is not None and not self.branch(st, v <= lim):
            # steer the witness to a size the Go runtime itself rejects, so that the native replay panics
            r, m = self.check(v >= (1 << 62), st)
            if r == 'sat':
                self.add_constraint(st, v >= (1 << 62))
                st.model = m
            raise GoPanic('alloc-above-limit', None, pos)
        return self.concretize(st, v, 64, limit=self.opts.get('max_split', 64), what='make size')

    def op_MakeMap(self, st, f, ins):
        c = self.new_cell(st, MapVal(()))
        f.locals[ins['r']] = MapRef(c)

    def op_MakeChan(self, st, f, ins):
        n = self.val(f, ins['size'])
        if not isinstance(n, int):
            raise Unsupported('symbolic chan size')
        c = self.new_cell(st, ChanVal(n))
        f.locals[ins['r']] = ChanRef(c)

    def op_MakeClosure(self, st, f, ins):
        fn = self.val(f, ins['fn'])
        f.locals[ins['r']] = Closure(fn.fn, tuple(self.val(f, b) for b in ins['bind']))

    def op_MakeInterface(self, st, f, ins):
        f.locals[ins['r']] = Iface(ins['xt'], self.val(f, ins['x']))

    def op_ChangeInterface(self, st, f, ins):
        f.locals[ins['r']] = self.val(f, ins['x'])

    def op_ChangeType(self, st, f, ins):
        f.locals[ins['r']] = self.val(f, ins['x'])

    def op_SliceToArrayPointer(self, st, f, ins):
        x = self.val(f, ins['x'])
        n = self.T(self.T(ins['t'])['elem'])['len']
        if x.len < n:
            raise GoPanic('slice-to-array', None, ins.get('pos', ''))
        if x.base is None:
            f.locals[ins['r']] = None
            return
        if x.off != 0:
            raise Unsupported('slice to array pointer with offset')
        arr = self.load(st, x.base)
        if len(arr) != n:
            raise Unsupported('slice to array pointer with different backing length')
        f.locals[ins['r']] = x.base

    def op_TypeAssert(self, st, f, ins):
        x = self.val(f, ins['x'])
        at = ins['at']
        tt = self.T(at)
        if isinstance(x, Poison):
            f.locals[ins['r']] = x
            return
        if isinstance(x, Opaque):
            raise Unsupported('type assert on opaque value')
        if x is None:
            ok = False
        elif tt['cls'] == 'iface':
            ok = self.srv.assertable(x.t, at)
        else:
            ok = (x.t == at)
        if tt['cls'] == 'iface':
            v = x if ok else None
        else:
            v = x.v if ok else self.zero(at)
        if ins['commaok']:
            f.locals[ins['r']] = (v, ok)
        else:
            if not ok:
                raise GoPanic('type-assert', None, ins.get('pos', ''))
            f.locals[ins['r']] = v

    # ---------- arithmetic ----------
    def op_BinOp(self, st, f, ins):
        x = self.val(f, ins['x'])
        y = self.val(f, ins['y'])
        if isinstance(x, Poison) or isinstance(y, Poison):
            f.locals[ins['r']] = Poison('binop')
            return
        op = ins['op']
        t = self.T(ins['xt'])
        c = t['cls']
        if c == 'int':
            r = self.int_binop(st, op, x, y, t, self.T(ins['yt']), ins.get('pos', ''))
        elif op == '==':
            r = self.eq(st, x, y, self.eq_type(ins))
        elif op == '!=':
            r = not_(self.eq(st, x, y, self.eq_type(ins)))
        elif c == 'string':
            r = self.str_binop(op, x, y)
        elif c == 'bool':
            raise Unsupported('bool binop ' + op)
        elif c == 'float':
            r = self.float_binop(op, x, y)
        else:
            raise Unsupported('binop %s on %s' % (op, t['s']))
        f.locals[ins['r']] = r

    def eq_type(self, ins):
        # comparisons against nil constants: use the non-nil side's type
        tx = self.T(ins['xt'])
        if tx['cls'] == 'nil':
            return ins['yt']
        ty = self.T(ins['yt'])
        if tx['cls'] != 'iface' and ty['cls'] == 'iface':
            return ins['yt']
        return ins['xt']

    def float_binop(self, op, x, y):
        if not isinstance(x, (int, float)) or not isinstance(y, (int, float)):
            raise Unsupported('symbolic float')
        if op == '+':
            return x + y
        if op == '-':
            return x - y
        if op == '*':
            return x * y
        if op == '/':
            if y == 0:
                return float('inf') if x > 0 else float('-inf') if x < 0 else float('nan')
            return x / y
        if op == '<':
            return x < y
        if op == '<=':
            return x <= y
        if op == '>':
            return x > y
        if op == '>=':
            return x >= y
        raise Unsupported('float op ' + op)

    def str_binop(self, op, x, y):
        if isinstance(x, StrAtom) or isinstance(y, StrAtom):
            raise Unsupported('string op on atom')
        if op == '+':
            if isinstance(x, bytes) and isinstance(y, bytes):
                return x + y
            return mkstr(str_elems(x) + str_elems(y))
        a, b = str_elems(x), str_elems(y)
        if op == '<':
            return lex_lt(a, b)
        if op == '<=':
            return lex_lt(a, b, True)
        if op == '>':
            return lex_lt(b, a)
        if op == '>=':
            return lex_lt(b, a, True)
        raise Unsupported('string op ' + op)

    def int_binop(self, st, op, x, y, t, yt, pos):
        bits, signed = t['bits'], t['signed']
        if not is_sym(x) and not is_sym(y):
            if op == '+':
                return wrap(x + y, bits, signed)
            if op == '-':
                return wrap(x - y, bits, signed)
            if op == '*':
                return wrap(x * y, bits, signed)
            if op == '/':
                if y == 0:
                    raise GoPanic('divide-by-zero', None, pos)
                return wrap(go_div(x, y), bits, signed)
            if op == '%':
                if y == 0:
                    raise GoPanic('divide-by-zero', None, pos)
                return wrap(x - y * go_div(x, y), bits, signed)
            if op == '&':
                return wrap(x & y, bits, signed)
            if op == '|':
                return wrap(x | y, bits, signed)
            if op == '^':
                return wrap(x ^ y, bits, signed)
            if op == '&^':
                return wrap(x & ~y, bits, signed)
            if op == '<<':
                if y < 0:
                    raise GoPanic('negative-shift', None, pos)
                return 0 if y >= bits else wrap(x << y, bits, signed)
            if op == '>>':
                if y < 0:
                    raise GoPanic('negative-shift', None, pos)
                if y >= bits:
                    return -1 if (signed and x < 0) else 0
                return x >> y
            if op == '==':
                return x == y
            if op == '!=':
                return x != y
            if op == '<':
                return x < y
            if op == '<=':
                return x <= y
            if op == '>':
                return x > y
            if op == '>=':
                return x >= y
            raise Unsupported('int op ' + op)
        X = bv(x, bits)
        if op in ('<<', '>>'):
            yb = yt['bits']
            Y = bv(y, yb)
            if yt['signed'] and is_sym(y):
                if not self.branch(st, Y >= 0):
                    raise GoPanic('negative-shift', None, pos)
            elif yt['signed'] and y < 0:
                raise GoPanic('negative-shift', None, pos)
            big = None
            if yb < bits:
                Y = z3.ZeroExt(bits - yb, Y)
            elif yb > bits:
                big = z3.UGE(Y, z3.BitVecVal(bits, yb))
                Y = z3.Extract(bits - 1, 0, Y)
            if op == '<<':
                r = X << Y
                if big is not None:
                    r = z3.If(big, z3.BitVecVal(0, bits), r)
            else:
                if signed:
                    r = X >> Y
                    if big is not None:
                        r = z3.If(big, X >> z3.BitVecVal(bits - 1, bits), r)
                else:
                    r = z3.LShR(X, Y)
                    if big is not None:
                        r = z3.If(big, z3.BitVecVal(0, bits), r)
            return r
        Y = bv(y, bits)
        if op == '+':
            return X + Y
        if op == '-':
            return X - Y
        if op == '*':
            if self.opts.get('mul_uf') and is_sym(x) and is_sym(y):
                # //verif:opt mul_uf=1: a product of two symbolic words is an uninterpreted function of
                # them (commutative by argument order). Sound for proofs (every real product is one
                # interpretation); a counterexample that depends on the interpretation fails its replay.
                return mul_uf(X, Y)
            return X * Y
        if op in ('/', '%'):
            if is_sym(y):
                if not self.branch(st, Y != 0):
                    raise GoPanic('divide-by-zero', None, pos)
            elif y == 0:
                raise GoPanic('divide-by-zero', None, pos)
            if op == '/':
                return (X / Y) if signed else z3.UDiv(X, Y)
            return z3.SRem(X, Y) if signed else z3.URem(X, Y)
        if op == '&':
            return X & Y
        if op == '|':
            return X | Y
        if op == '^':
            return X ^ Y
        if op == '&^':
            return X & ~Y
        if op == '==':
            return simp_bool(X == Y)
        if op == '!=':
            return simp_bool(X != Y)
        if signed:
            if op == '<':
                return X < Y
            if op == '<=':
                return X <= Y
            if op == '>':
                return X > Y
            if op == '>=':
                return X >= Y
        else:
            if op == '<':
                return z3.ULT(X, Y)
            if op == '<=':
                return z3.ULE(X, Y)
            if op == '>':
                return z3.UGT(X, Y)
            if op == '>=':
                return z3.UGE(X, Y)
        raise Unsupported('int op ' + op)

    def op_UnOp(self, st, f, ins):
        x = self.val(f, ins['x'])
        op = ins['op']
        if op == '*':
            bits = None
            if isinstance(x, Ptr) and x.path and not isinstance(x.path[-1], int):
                bits = self.T(ins['t']).get('bits')
            f.locals[ins['r']] = self.load(st, x, ins.get('pos', ''), bits)
            return
        if isinstance(x, Poison):
            f.locals[ins['r']] = x
            return
        if op == '!':
            f.locals[ins['r']] = not_(x)
            return
        if op == '<-':
            return self.chan_recv(st, f, ins, x)
        t = self.T(ins['xt'])
        if t['cls'] == 'float':
            f.locals[ins['r']] = -x
            return
        bits, signed = t['bits'], t['signed']
        if op == '-':
            f.locals[ins['r']] = (-x) if is_sym(x) else wrap(-x, bits, signed)
        elif op == '^':
            f.locals[ins['r']] = (~x) if is_sym(x) else wrap(~x, bits, signed)
        else:
            raise Unsupported('unop ' + op)

    def op_Convert(self, st, f, ins):
        x = self.val(f, ins['x'])
        if isinstance(x, Poison):
            f.locals[ins['r']] = x
            return
        f.locals[ins['r']] = self.convert(st, x, self.T(ins['xt']), self.T(ins['t']))

    def convert(self, st, x, src, dst):
        sc, dc = src['cls'], dst['cls']
        if sc == 'int' and dc == 'int':
            sb, ss, db, ds = src['bits'], src['signed'], dst['bits'], dst['signed']
            if not is_sym(x):
                return wrap(x, db, ds)
            if db < sb:
                return z3.Extract(db - 1, 0, x)
            if db > sb:
                return z3.SignExt(db - sb, x) if ss else z3.ZeroExt(db - sb, x)
            return x
        if sc == 'string' and dc == 'slice':
            ek = self.T(dst['elem'])
            if ek['bits'] == 8:
                el = str_elems(x) if not isinstance(x, StrAtom) else None
                if el is None:
                    raise Unsupported('[]byte(atom)')
                c = self.new_cell(st, tuple(el))
                return Slice(Ptr(c, ()), 0, len(el), len(el))
            if isinstance(x, bytes):
                rs = tuple(ord(ch) for ch in x.decode('utf-8', 'replace'))
                c = self.new_cell(st, rs)
                return Slice(Ptr(c, ()), 0, len(rs), len(rs))
            raise Unsupported('[]rune(symbolic)')
        if sc == 'slice' and dc == 'string':
            ek = self.T(src['elem'])
            if x.base is None or x.len == 0:
                return b''
            arr = self.load(st, x.base)
            el = arr[x.off:x.off + x.len]
            if ek['bits'] == 8:
                return mkstr(el)
            if all(isinstance(e, int) for e in el):
                return ''.join(chr(e) for e in el).encode('utf-8')
            raise Unsupported('string([]rune symbolic)')
        if sc == 'int' and dc == 'string':
            if is_sym(x):
                raise Unsupported('string(symbolic rune)')
            try:
                return chr(x).encode('utf-8')
            except (ValueError, OverflowError):
                return '�'.encode('utf-8')
        if sc == 'int' and dc == 'float':
            if is_sym(x):
                raise Unsupported('float(symbolic)')
            return float(x)
        if sc == 'float' and dc == 'int':
            if not isinstance(x, (int, float)):
                raise Unsupported('int(symbolic float)')
            if x != x or x in (float('inf'), float('-inf')):
                return wrap(-(1 << 63), dst['bits'], dst['signed'])
            return wrap(int(x), dst['bits'], dst['signed'])
        if sc == 'float' and dc == 'float':
            if dst['k'] == 'float32' and isinstance(x, float):
                import struct
                return struct.unpack('f', struct.pack('f', x))[0]
            return x
        if dc == 'unsafeptr' or sc == 'unsafeptr':
            if sc == 'int' or dc == 'int':
                raise Unsupported('uintptr conversion')
            return x
        if sc == dc:
            return x
        raise Unsupported('convert %s -> %s' % (src['s'], dst['s']))
