# Built-in models: the verif harness API and trusted library models.
import z3
from .values import *
from .engine import *

MODELS = {}
PKG_MODELS = {}
IFACE_MODELS = {}


def model(*names):
    def deco(fn):
        for n in names:
            MODELS[n] = fn
        return fn
    return deco


def zero_results(ex, ins):
    res = ins.get('res') or []
    if len(res) == 0:
        return None
    if len(res) == 1:
        return ex.zero(res[0])
    return tuple(ex.zero(t) for t in res)


# ---------------------------------------------------------------- verif API
def is_verif_api(name):
    short = name.rsplit('.', 1)[-1]
    return short.startswith('verif')


def fresh_of_type(ex, st, tid, kind='nd'):
    t = ex.T(tid)
    c = t['cls']
    if c == 'int':
        e = z3.BitVec(ex.fresh_name(kind), t['bits'])
        st.nondets.append((t['k'], e))
        return e
    if c == 'bool':
        e = z3.Bool(ex.fresh_name(kind))
        st.nondets.append(('bool', e))
        return e
    if c == 'array':
        return tuple(fresh_of_type(ex, st, t['elem'], kind) for _ in range(t['len']))
    if c == 'struct' and not t['isbig']:
        return tuple(fresh_of_type(ex, st, f['t'], kind) for f in t['fields'])
    raise Unsupported('nondet of type ' + t['s'])


def api_call(ex, st, args, ins, fn):
    short = fn['short']
    if short.startswith('verifNondet'):
        what = short[len('verifNondet'):]
        if what == 'Bytes':
            n = args[0]
            if not isinstance(n, int):
                n = ex.concretize(st, n, 64, what='verifNondetBytes length')
            elems = []
            if n > 0:
                wide = z3.BitVec(ex.fresh_name('ndB'), 8 * n)
                for i in range(n):
                    e = z3.Extract(8 * (n - i) - 1, 8 * (n - i) - 8, wide) if n > 1 else wide
                    ex.blobs[e.get_id()] = (wide.get_id(), i)
                    st.nondets.append(('uint8', e))
                    elems.append(e)
            c = ex.new_cell(st, tuple(elems))
            return Slice(Ptr(c, ()), 0, n, n)
        if what == 'Big':
            e = z3.Int(ex.fresh_name('ndI'))
            st.nondets.append(('big', e))
            c = ex.new_cell(st, Big(e))
            return Ptr(c, ())
        return fresh_of_type(ex, st, ins['res'][0])
    if short == 'verifAssume':
        c = simp_bool(args[0])
        if c is True:
            return None
        ex.flush_asserts(st)
        if c is False:
            raise PathEnd('assumed-away')
        if st.model is not None and z3.is_true(st.model.eval(c, model_completion=True)):
            pass
        else:
            r, m = ex.check(c, st)
            if r == 'unsat':
                raise PathEnd('assumed-away')
            st.model = m
        ex.solver.add(c)
        st.pc.append(c)
        return None
    if short == 'verifAssert':
        label = args[1].decode() if isinstance(args[1], bytes) else str(args[1])
        c = simp_bool(args[0])
        ok = ex.record_assert(st, label, c)
        if ok is False:
            raise PathEnd('assumed-away')   # concretely false on this path: nothing lies beyond it
        return None
    if short == 'verifReach':
        label = args[0].decode()
        if label not in ex.reach:
            if st.model is not None:
                r, m = 'sat', st.model
            else:
                r, m = ex.check(None, st)
                if r == 'sat':
                    st.model = m
            if r == 'sat':
                ex.reach[label] = ex.witness(st, m, label, 'reach')
        ex.reach_count[label] = ex.reach_count.get(label, 0) + 1
        return None
    if short == 'verifNote':
        # records a value in the path's ghost notes (shows up in witnesses)
        return None
    if short in ('verifUFBool', 'verifUFInt64', 'verifUFUint64'):
        name = args[0].decode()
        terms, sig, packed = flatten_args(ex, st, args[1])
        if short == 'verifUFBool':
            rs = z3.BoolSort()
        else:
            rs = z3.BitVecSort(64)
        r = uf_apply(ex, st, name, packed, sig, rs)
        st.ufapps.append((name, tuple(terms), (r,)))
        return r
    if short in ('verifUFBytes', 'verifHashBytes'):
        name = args[0].decode()
        n = args[1]
        terms, sig, packed = flatten_args(ex, st, args[2])
        rs = z3.BitVecSort(8 * n)
        r = uf_apply(ex, st, name, packed, sig, rs)
        if short == 'verifHashBytes':
            # collision-freeness contract, linear encoding: an inverse function per argument
            # (inv_k(F(x)) = x_k) and a shape tag shared by all shapes of this name
            key = 'hash:' + name
            seen = st.ghost.get(key, frozenset())
            rid = r.get_id()
            if rid not in seen:
                st.ghost[key] = seen | {rid}
                sigs = ex.ufs.setdefault(('sigs', name, 8 * n), {})
                sid = sigs.setdefault(sig, len(sigs))
                tagf = ex.ufs.get(('tag', name, 8 * n))
                if tagf is None:
                    tagf = ex.ufs[('tag', name, 8 * n)] = z3.Function('tag_%s_%d' % (name, 8 * n), rs, z3.IntSort())
                cs = [tagf(r) == sid]
                for k, a_ in enumerate(packed):
                    ik = ('inv', name, sig, 8 * n, k)
                    invf = ex.ufs.get(ik)
                    if invf is None:
                        invf = ex.ufs[ik] = z3.Function('inv_%s_%d_%d' % (name, len(ex.ufs), k), rs, a_.sort())
                    cs.append(invf(r) == a_)
                for c in cs:
                    ex.add_constraint(st, c)
        elems = tuple(z3.Extract(8 * (n - i) - 1, 8 * (n - i) - 8, r) for i in range(n))
        for i, e in enumerate(elems):
            ex.blobs[e.get_id()] = (r.get_id(), i)
        st.ufapps.append((name, tuple(terms), elems))
        c = ex.new_cell(st, elems)
        return Slice(Ptr(c, ()), 0, n, n)
    if short == 'verifAllocLimit':
        st.ghost['alloc_limit'] = args[0]
        return None
    if short == 'verifSymbolic':
        return True
    if short == 'verifLazyGoroutines':
        st.ghost['go_lazy'] = bool(args[0])
        return None
    if short == 'verifFaultWrites':
        st.ghost['write_fault'] = bool(args[0])
        return None
    if short == 'verifThorough':
        return ex.opts.get('tier') == 'thorough'
    if short == 'verifCase':
        n = args[0]
        # The case splits at the start of a harness are partitioned over K worker processes:
        # worker w takes the alternatives a with a = w (mod n); the workers sharing an
        # alternative partition the next case split among themselves in the same way.
        sp = st.ghost.get('split')
        if sp is None and ex.opts.get('split'):
            sp = (int(ex.opts['split']), int(ex.opts.get('split_index', 0)))
        if sp is not None and sp[0] > 1:
            K, w = sp
            if n >= K:
                conds = [(i % K) == w for i in range(n)]
                nxt = (1, 0)
            else:
                a = w % n
                conds = [i == a for i in range(n)]
                ca = len([x for x in range(K) if x % n == a])
                nxt = (ca, w // n)
        else:
            conds = [True] * n
            nxt = (1, 0)
        k = ex.choose(st, conds, maporder=True)
        st.ghost['split'] = nxt
        st.nondets.append(('case', k))
        return k
    raise Unsupported('unknown verif API ' + short)


def zterm(a):
    if isinstance(a, bool):
        return z3.BoolVal(a)
    return a


def pack_terms(ex, terms):
    """group the flattened argument terms: a run of bytes cut from the same wider term
    becomes that term (one argument), a run of constants becomes one constant, every
    other term is its own argument. Keeps hash-of-hash reasoning at the term level."""
    out = []
    run = []       # current run of byte terms
    run_key = None

    def flush():
        nonlocal run, run_key
        if run:
            if len(run) == 1:
                out.append(run[0])
            else:
                out.append(z3.simplify(z3.Concat(*run)))
        run, run_key = [], None

    for t in terms:
        if isinstance(t, bool):
            t = z3.BitVecVal(1 if t else 0, 1)
        elif z3.is_bool(t):
            t = z3.If(t, z3.BitVecVal(1, 1), z3.BitVecVal(0, 1))
        if z3.is_int(t):
            flush()
            out.append(t)
            continue
        if z3.is_bv_value(t):
            key = 'const'
        else:
            info = ex.blobs.get(t.get_id())
            key = ('blob', info[0]) if info else None
        if key is None:
            flush()
            out.append(t)
            continue
        if key != run_key:
            flush()
            run_key = key
        run.append(t)
    flush()
    return out


def uf_apply(ex, st, name, terms, sig, rsort):
    key = (name, sig, str(rsort))
    F = ex.ufs.get(key)
    if F is None:
        sorts = [t.sort() for t in terms]
        if False:
            for s in sig:
                pass
        fname = 'uf_%s_%d' % (name, len(ex.ufs))
        if sorts:
            F = z3.Function(fname, *(sorts + [rsort]))
        else:
            F = z3.Const(fname, rsort)
        ex.ufs[key] = F
    if not terms:
        return F
    return F(*terms)


def flatten_args(ex, st, sl):
    """sl: slice of interface{} values; returns (flat terms for the witness, signature, packed UF arguments).
    The packing is determined by the static shape only: every byte container (string, []byte, [n]byte)
    becomes ONE bit-vector argument (its bytes concatenated - a whole hash value stays one term),
    every other scalar is its own argument."""
    terms = []
    sig = []
    groups = []
    for a in ex.slice_elems(st, sl):
        flatten_val(ex, st, a.v if isinstance(a, Iface) else a, a.t if isinstance(a, Iface) else None, terms, sig, groups)
    packed = []
    for g in groups:
        if g[0] == 'one':
            t = terms[g[1]]
            if isinstance(t, bool):
                t = z3.BitVecVal(1 if t else 0, 1)
            elif z3.is_bool(t):
                t = z3.If(t, z3.BitVecVal(1, 1), z3.BitVecVal(0, 1))
            packed.append(t)
        else:
            els = terms[g[1]:g[2]]
            if len(els) == 1:
                packed.append(els[0])
            elif els:
                packed.append(z3.simplify(z3.Concat(*els)))
    return terms, tuple(sig), packed


def is_byte_type(ex, tid):
    t = ex.T(tid)
    return t['cls'] == 'int' and t['bits'] == 8


def flatten_val(ex, st, v, tid, terms, sig, groups):
    if tid is None:
        raise Unsupported('UF arg nil interface')
    t = ex.T(tid)
    c = t['cls']
    if c == 'int':
        groups.append(('one', len(terms)))
        terms.append(bv(v, t['bits']))
        sig.append(t['bits'])
    elif c == 'bool':
        groups.append(('one', len(terms)))
        terms.append(zbool(v))
        sig.append('b')
    elif c == 'string':
        if isinstance(v, StrAtom):
            raise Unsupported('UF arg atom string')
        el = str_elems(v)
        terms.append(z3.BitVecVal(len(el), 32))     # length marker: witness only, part of the signature
        sig.append(('len', len(el)))
        start = len(terms)
        for e in el:
            terms.append(bv(e, 8))
        groups.append(('bytes', start, len(terms)))
    elif c == 'slice':
        el = ex.slice_elems(st, v)
        terms.append(z3.BitVecVal(len(el), 32))
        sig.append(('len', len(el)))
        et = t['elem']
        if is_byte_type(ex, et):
            start = len(terms)
            for e in el:
                terms.append(bv(e, 8))
            groups.append(('bytes', start, len(terms)))
        else:
            for e in el:
                flatten_val(ex, st, e, et, terms, sig, groups)
    elif c == 'array':
        if is_byte_type(ex, t['elem']):
            sig.append(('arr', len(v)))
            start = len(terms)
            for e in v:
                terms.append(bv(e, 8))
            groups.append(('bytes', start, len(terms)))
        else:
            for e in v:
                flatten_val(ex, st, e, t['elem'], terms, sig, groups)
    elif c == 'struct':
        if t['isbig']:
            groups.append(('one', len(terms)))
            terms.append(v.v if is_sym(v.v) else z3.IntVal(v.v))
            sig.append('I')
        else:
            for e, f in zip(v, t['fields']):
                flatten_val(ex, st, e, f['t'], terms, sig, groups)
    elif c == 'ptr' and ex.T(t['elem'])['isbig']:
        b = ex.load(st, v)
        groups.append(('one', len(terms)))
        terms.append(b.v if is_sym(b.v) else z3.IntVal(b.v))
        sig.append('I')
    elif c == 'iface':
        if v is None:
            groups.append(('one', len(terms)))
            terms.append(z3.BitVecVal(0, 8))
            sig.append(8)
        else:
            sig.append(('dyn', v.t))
            flatten_val(ex, st, v.v, v.t, terms, sig, groups)
    elif c == 'ptr':
        # a pointer argument stands for its pointee (nil is a distinct shape)
        if v is None:
            sig.append('nilptr')
        else:
            sig.append('ptr')
            flatten_val(ex, st, ex.load(st, v), t['elem'], terms, sig, groups)
    else:
        raise Unsupported('UF arg of type ' + t['s'])


# ---------------------------------------------------------------- fmt / errors / logging
def errorstring_type(ex):
    t = getattr(ex, '_errstr_t', None)
    if t is None:
        r = ex.srv.req(op='namedtype', pkg='errors', name='errorString')
        t = ex._errstr_t = ex.srv.ptrto(r['t'])
    return t


@model('fmt.Errorf', 'github.com/pkg/errors.Errorf', 'github.com/pkg/errors.New', 'github.com/pkg/errors.Wrap',
       'github.com/pkg/errors.Wrapf', 'github.com/pkg/errors.WithStack', 'github.com/pkg/errors.WithMessage')
def m_errorf(ex, st, args, ins, fn):
    if fn['short'] in ('Wrap', 'Wrapf', 'WithStack', 'WithMessage'):
        # wrapping keeps the cause (errors.Cause(err) == cause); the message is not modelled
        return args[0]
    c = ex.new_cell(st, (b'<' + fn['name'].encode() + b'@' + ins.get('pos', '').encode() + b'>',))
    return Iface(errorstring_type(ex), Ptr(c, ()))


@model('fmt.Sprintf', 'fmt.Sprint', 'fmt.Sprintln')
def m_sprintf(ex, st, args, ins, fn):
    # formatting is not the subject of any property: concrete format string is kept as a tag
    if fn['short'] == 'Sprintf' and isinstance(args[0], bytes):
        el = ex.slice_elems(st, args[1])
        if not el:
            return args[0]
        return StrAtom('fmt:%s@%s#%d' % (args[0].decode('utf-8', 'replace'), ins.get('pos', ''), st.nsteps))
    return StrAtom('fmt@%s#%d' % (ins.get('pos', ''), st.nsteps))


@model('fmt.Printf', 'fmt.Println', 'fmt.Print', 'fmt.Fprintf', 'fmt.Fprintln', 'fmt.Fprint')
def m_printf(ex, st, args, ins, fn):
    return zero_results(ex, ins)


def pkg_noop(ex, st, args, ins, fn):
    return zero_results(ex, ins)


def iface_noop(ex, st, x, mname, args, ins):
    res = ins.get('res') or []
    if len(res) == 0:
        return None
    if len(res) == 1:
        t = ex.T(res[0])
        # methods returning the same interface (e.g. Logger.With/New) return the receiver
        if t['cls'] == 'iface' and t['s'] == ex.T(ins['it'])['s']:
            return x
        return ex.zero(res[0])
    return tuple(ex.zero(t) for t in res)


PKG_MODELS['github.com/lianxiangcloud/linkchain/libs/log'] = pkg_noop
IFACE_MODELS['github.com/lianxiangcloud/linkchain/libs/log.Logger'] = iface_noop


# ---------------------------------------------------------------- sync / atomic
@model('(*sync.Mutex).Lock', '(*sync.Mutex).Unlock', '(*sync.RWMutex).Lock', '(*sync.RWMutex).Unlock',
       '(*sync.RWMutex).RLock', '(*sync.RWMutex).RUnlock', '(*sync.WaitGroup).Add', '(*sync.WaitGroup).Done',
       '(*sync.Mutex).TryLock', 'runtime.Gosched', 'runtime.KeepAlive',
       '(*sync.Cond).Broadcast', '(*sync.Cond).Signal')
def m_sync_noop(ex, st, args, ins, fn):
    return zero_results(ex, ins)


def _atomic_load(ex, st, args, ins, fn):
    return ex.load(st, args[0])


def _atomic_store(ex, st, args, ins, fn):
    ex.store(st, args[0], args[1])
    return None


def _atomic_add(ex, st, args, ins, fn):
    t = ex.T(ins['res'][0])
    v = ex.int_binop(st, '+', ex.load(st, args[0]), args[1], t, t, '')
    ex.store(st, args[0], v)
    return v


def _atomic_swap(ex, st, args, ins, fn):
    old = ex.load(st, args[0])
    ex.store(st, args[0], args[1])
    return old


def _atomic_cas(ex, st, args, ins, fn):
    old = ex.load(st, args[0])
    if is_sym(old) or is_sym(args[1]):
        bits = old.size() if is_sym(old) else args[1].size()
        c = simp_bool(bv(old, bits) == bv(args[1], bits))
        ok = ex.branch(st, c)
    else:
        ok = (old == args[1])
    if ok:
        ex.store(st, args[0], args[2])
    return ok


for _w in ('Int32', 'Int64', 'Uint32', 'Uint64', 'Uintptr', 'Pointer'):
    for _p in ('sync/atomic.', 'internal/runtime/atomic.'):
        MODELS[_p + 'Load' + _w] = _atomic_load
        MODELS[_p + 'Store' + _w] = _atomic_store
        MODELS[_p + 'Add' + _w] = _atomic_add
        MODELS[_p + 'Swap' + _w] = _atomic_swap
        MODELS[_p + 'CompareAndSwap' + _w] = _atomic_cas


# ---------------------------------------------------------------- bytes helpers
@model('internal/bytealg.Compare')
def m_compare(ex, st, args, ins, fn):
    from .ops import lex_lt
    a = ex.slice_elems(st, args[0])
    b = ex.slice_elems(st, args[1])
    lt = lex_lt(a, b)
    gt = lex_lt(b, a)
    if isinstance(lt, bool) and isinstance(gt, bool):
        return -1 if lt else (1 if gt else 0)
    return z3.If(zbool(lt), z3.BitVecVal(-1, 64), z3.If(zbool(gt), z3.BitVecVal(1, 64), z3.BitVecVal(0, 64)))


@model('internal/bytealg.IndexByte', 'internal/bytealg.IndexByteString')
def m_indexbyte(ex, st, args, ins, fn):
    a = ex.slice_elems(st, args[0])
    c = args[1]
    r = -1
    for i in range(len(a) - 1, -1, -1):
        e = a[i]
        if is_sym(e) or is_sym(c):
            r = ite(bv(e, 8) == bv(c, 8), i, r, 64)
        elif e == c:
            r = i
    return r


@model('internal/bytealg.Equal', 'runtime.memequal')
def m_bytes_equal(ex, st, args, ins, fn):
    a = ex.slice_elems(st, args[0])
    b = ex.slice_elems(st, args[1])
    return ex.str_eq(mkstr(a), mkstr(b))


# ---------------------------------------------------------------- math/big
def bigv(ex, st, p):
    if p is None:
        raise GoPanic('nil-deref', None, 'big.Int method on nil')
    b = ex.load(st, p)
    if not isinstance(b, Big):
        raise Unsupported('big.Int value expected, got %r' % (b,))
    return b.v


def bigset(ex, st, p, v):
    if p is None:
        raise GoPanic('nil-deref', None, 'big.Int method on nil')
    ex.store(st, p, Big(v))
    return p


def zint(v):
    return v if is_sym(v) else z3.IntVal(v)


# ---- bit-vector backed big.Int (//verif:opt big_bv=1) --------------------------------------------
# A Big may carry bv: a signed two's-complement term of arbitrary width whose value is the integer,
# and nn: "known non-negative" (top bit zero), which lets extensions be zero-extensions and |x| be x.
# Every operation below computes at a width where the mathematical result fits, so no wrap-around
# is introduced by the model; v (the Int view) is kept as BV2Int(bv) for code that mixes the views.
BIG_BV_MAXW = 1200


def bvmode(ex):
    return bool(ex.opts.get('big_bv'))


def bigobj(ex, st, p):
    if p is None:
        raise GoPanic('nil-deref', None, 'big.Int method on nil')
    b = ex.load(st, p)
    if not isinstance(b, Big):
        raise Unsupported('big.Int value expected, got %r' % (b,))
    return b


class SBV:
    """signed bit-vector view: term + known-non-negative flag"""
    __slots__ = ('t', 'nn')

    def __init__(self, t, nn=False):
        self.t = t
        self.nn = nn

    def size(self):
        return self.t.size()

    def ext(self, w):
        d = w - self.t.size()
        if d == 0:
            return self.t
        return z3.ZeroExt(d, self.t) if self.nn else z3.SignExt(d, self.t)

    def abs(self):
        """|x| as a non-negative SBV"""
        if self.nn:
            return self
        X = self.ext(self.t.size() + 1)
        return SBV(z3.If(X < 0, -X, X), True)


def big_sbv(b):
    """signed bit-vector view of a Big, or None"""
    if b.bv is not None:
        return SBV(b.bv, b.nn)
    if isinstance(b.v, int):
        return SBV(z3.BitVecVal(b.v, max(b.v.bit_length() + 1, 8)), b.v >= 0)
    return None


def mkbig_bv(x, nn=False):
    x = z3.simplify(x)
    if z3.is_bv_value(x):
        return Big(x.as_signed_long())
    return Big(z3.BV2Int(x, True), x, nn)


def bigset_bv(ex, st, p, x, nn=False):
    if p is None:
        raise GoPanic('nil-deref', None, 'big.Int method on nil')
    ex.store(st, p, mkbig_bv(x, nn))
    return p


def bv_pair(ex, st, pa, pb):
    """both operands as SBVs (or None if one of them has no BV view / all concrete)"""
    if not bvmode(ex):
        return None
    a, b = bigobj(ex, st, pa), bigobj(ex, st, pb)
    if isinstance(a.v, int) and isinstance(b.v, int):
        return None
    A, B = big_sbv(a), big_sbv(b)
    if A is None or B is None:
        return None
    return A, B


def bv_one(ex, st, p):
    if not bvmode(ex):
        return None
    a = bigobj(ex, st, p)
    if isinstance(a.v, int) or a.bv is None:
        return None
    return SBV(a.bv, a.nn)


def big_binop(op):
    def f(ex, st, args, ins, fn):
        pr = bv_pair(ex, st, args[1], args[2])
        if pr is not None:
            A, B = pr
            nn = A.nn and B.nn
            if op in ('add', 'sub'):
                w = max(A.size(), B.size()) + 1
                if w <= BIG_BV_MAXW:
                    if op == 'add':
                        return bigset_bv(ex, st, args[0], A.ext(w) + B.ext(w), nn)
                    return bigset_bv(ex, st, args[0], A.ext(w) - B.ext(w), False)
            elif op == 'mul':
                w = A.size() + B.size()
                if w <= BIG_BV_MAXW:
                    if ex.opts.get('mul_uf') and not z3.is_bv_value(A.t) and not z3.is_bv_value(B.t):
                        from .ops import mul_uf
                        if nn:   # the product of two non-negative values keeps the flag only with a real product
                            nn = False
                        return bigset_bv(ex, st, args[0], mul_uf(A.ext(w), B.ext(w)), nn)
                    return bigset_bv(ex, st, args[0], A.ext(w) * B.ext(w), nn)
            else:
                w = max(A.size(), B.size()) + 1
                X, Y = A.ext(w), B.ext(w)
                if not ex.branch(st, Y != 0):
                    raise GoPanic('divide-by-zero', None, 'big.Int division by zero')
                if nn:
                    res = z3.UDiv(X, Y) if op in ('quo', 'div') else z3.URem(X, Y)
                    return bigset_bv(ex, st, args[0], res, True)
                q = X / Y               # bvsdiv: truncated
                r = z3.SRem(X, Y)       # sign follows the dividend
                if op == 'quo':
                    res = q
                elif op == 'rem':
                    res = r
                elif op == 'div':
                    res = z3.If(r < 0, z3.If(Y > 0, q - 1, q + 1), q)
                else:
                    res = z3.If(r < 0, z3.If(Y > 0, r + Y, r - Y), r)
                return bigset_bv(ex, st, args[0], res, op == 'mod')
        x = bigv(ex, st, args[1])
        y = bigv(ex, st, args[2])
        if isinstance(x, int) and isinstance(y, int):
            if op == 'add':
                r = x + y
            elif op == 'sub':
                r = x - y
            elif op == 'mul':
                r = x * y
            else:
                if y == 0:
                    raise GoPanic('divide-by-zero', None, 'big.Int division by zero')
                q = abs(x) // abs(y)
                if (x < 0) != (y < 0):
                    q = -q
                rem = x - y * q
                if op == 'quo':
                    r = q
                elif op == 'rem':
                    r = rem
                elif op == 'div':   # Euclidean
                    r = q
                    if rem < 0:
                        r = q - 1 if y > 0 else q + 1
                else:               # mod, Euclidean
                    r = rem
                    if rem < 0:
                        r = rem + abs(y)
        else:
            X, Y = zint(x), zint(y)
            if op == 'add':
                r = X + Y
            elif op == 'sub':
                r = X - Y
            elif op == 'mul':
                r = X * Y
            else:
                if isinstance(y, int):
                    if y == 0:
                        raise GoPanic('divide-by-zero', None, 'big.Int division by zero')
                elif not ex.branch(st, Y != 0):
                    raise GoPanic('divide-by-zero', None, 'big.Int division by zero')
                if op == 'div':
                    r = X / Y          # SMT-LIB div is Euclidean
                elif op == 'mod':
                    r = X % Y
                else:
                    # truncated: q = sign * (|x| div |y|)
                    ax = z3.If(X >= 0, X, -X)
                    ay = z3.If(Y >= 0, Y, -Y)
                    q = ax / ay
                    q = z3.If((X < 0) != (Y < 0), -q, q)
                    r = q if op == 'quo' else X - Y * q
        return bigset(ex, st, args[0], r)
    return f


for _n, _o in (('Add', 'add'), ('Sub', 'sub'), ('Mul', 'mul'), ('Div', 'div'), ('Mod', 'mod'), ('Quo', 'quo'), ('Rem', 'rem')):
    MODELS['(*math/big.Int).' + _n] = big_binop(_o)


@model('math/big.NewInt')
def m_big_newint(ex, st, args, ins, fn):
    x = args[0]
    if bvmode(ex) and not isinstance(x, int):
        return Ptr(ex.new_cell(st, mkbig_bv(x)), ())
    v = x if isinstance(x, int) else z3.BV2Int(x, True)
    return Ptr(ex.new_cell(st, Big(v)), ())


@model('(*math/big.Int).SetInt64')
def m_big_setint64(ex, st, args, ins, fn):
    x = args[1]
    if bvmode(ex) and not isinstance(x, int):
        return bigset_bv(ex, st, args[0], x)
    return bigset(ex, st, args[0], x if isinstance(x, int) else z3.BV2Int(x, True))


def ubv2int(ex, st, x, depth=3):
    """unsigned BV -> Int, with the (valid) carry lemmas for sums and differences: the solvers do not
    relate ubv_to_int(a-b) to ubv_to_int(a)-ubv_to_int(b) on their own"""
    r = z3.BV2Int(x, False)
    if depth <= 0 or not z3.is_app(x):
        return r
    k = x.decl().kind()
    n = x.size()
    if k in (z3.Z3_OP_BADD, z3.Z3_OP_BSUB) and x.num_args() == 2:
        a, b = x.arg(0), x.arg(1)
        A = a.as_long() if z3.is_bv_value(a) else ubv2int(ex, st, a, depth - 1)
        B = b.as_long() if z3.is_bv_value(b) else ubv2int(ex, st, b, depth - 1)
        if k == z3.Z3_OP_BADD:
            lem = r == A + B - z3.If(z3.ULT(x, a), z3.IntVal(2 ** n), z3.IntVal(0))
        else:
            lem = r == A - B + z3.If(z3.ULT(a, b), z3.IntVal(2 ** n), z3.IntVal(0))
        key = ('u2ilem', x.get_id())
        if key not in st.ghost:
            st.ghost[key] = True
            ex.add_constraint(st, lem)
    return r


@model('(*math/big.Int).SetUint64')
def m_big_setuint64(ex, st, args, ins, fn):
    x = args[1]
    if bvmode(ex) and not isinstance(x, int):
        return bigset_bv(ex, st, args[0], z3.ZeroExt(1, x), True)
    return bigset(ex, st, args[0], x if isinstance(x, int) else ubv2int(ex, st, x))


@model('(*math/big.Int).Set')
def m_big_set(ex, st, args, ins, fn):
    b = bigobj(ex, st, args[1])
    if args[0] is None:
        raise GoPanic('nil-deref', None, 'big.Int method on nil')
    ex.store(st, args[0], Big(b.v, b.bv, b.nn))
    return args[0]


@model('(*math/big.Int).Neg')
def m_big_neg(ex, st, args, ins, fn):
    X = bv_one(ex, st, args[1])
    if X is not None:
        return bigset_bv(ex, st, args[0], -X.ext(X.size() + 1))
    return bigset(ex, st, args[0], -bigv(ex, st, args[1]))


@model('(*math/big.Int).Abs')
def m_big_abs(ex, st, args, ins, fn):
    X = bv_one(ex, st, args[1])
    if X is not None:
        return bigset_bv(ex, st, args[0], X.abs().t, True)
    x = bigv(ex, st, args[1])
    return bigset(ex, st, args[0], abs(x) if isinstance(x, int) else z3.If(x >= 0, x, -x))


def cmp_int(a, b):
    if isinstance(a, int) and isinstance(b, int):
        return -1 if a < b else (1 if a > b else 0)
    A, B = zint(a), zint(b)
    return z3.If(A < B, z3.BitVecVal(-1, 64), z3.If(A > B, z3.BitVecVal(1, 64), z3.BitVecVal(0, 64)))


def cmp_bv(A, B):
    w = max(A.size(), B.size()) + 1
    A, B = A.ext(w), B.ext(w)
    return z3.If(A < B, z3.BitVecVal(-1, 64), z3.If(A > B, z3.BitVecVal(1, 64), z3.BitVecVal(0, 64)))


@model('(*math/big.Int).Cmp')
def m_big_cmp(ex, st, args, ins, fn):
    pr = bv_pair(ex, st, args[0], args[1])
    if pr is not None:
        return cmp_bv(*pr)
    return cmp_int(bigv(ex, st, args[0]), bigv(ex, st, args[1]))


@model('(*math/big.Int).CmpAbs')
def m_big_cmpabs(ex, st, args, ins, fn):
    pr = bv_pair(ex, st, args[0], args[1])
    if pr is not None:
        return cmp_bv(pr[0].abs(), pr[1].abs())
    a, b = bigv(ex, st, args[0]), bigv(ex, st, args[1])
    a = abs(a) if isinstance(a, int) else z3.If(a >= 0, a, -a)
    b = abs(b) if isinstance(b, int) else z3.If(b >= 0, b, -b)
    return cmp_int(a, b)


@model('(*math/big.Int).Sign')
def m_big_sign(ex, st, args, ins, fn):
    X = bv_one(ex, st, args[0])
    if X is not None:
        return cmp_bv(X, SBV(z3.BitVecVal(0, 8), True))
    return cmp_int(bigv(ex, st, args[0]), 0)


@model('(*math/big.Int).Int64', '(*math/big.Int).Uint64')
def m_big_int64(ex, st, args, ins, fn):
    X = bv_one(ex, st, args[0])
    if X is not None:
        if fn['short'] == 'Int64':      # low 64 bits of |x|, negated when x < 0 == low 64 bits of x
            return z3.simplify(z3.Extract(63, 0, X.ext(max(X.size(), 64))))
        ax = X.abs()
        return z3.simplify(z3.Extract(63, 0, ax.ext(max(ax.size(), 64))))
    x = bigv(ex, st, args[0])
    signed = fn['short'] == 'Int64'
    if isinstance(x, int):
        # Go: low 64 bits of |x| with the sign applied (two's complement wrap)
        return wrap(x, 64, signed)
    return z3.Int2BV(x, 64)


@model('(*math/big.Int).IsInt64')
def m_big_isint64(ex, st, args, ins, fn):
    X = bv_one(ex, st, args[0])
    if X is not None:
        if X.size() <= 64:
            return True
        return z3.And(X.t >= -(1 << 63), X.t < (1 << 63))
    x = bigv(ex, st, args[0])
    if isinstance(x, int):
        return -(1 << 63) <= x < (1 << 63)
    return z3.And(x >= -(1 << 63), x < (1 << 63))


@model('(*math/big.Int).IsUint64')
def m_big_isuint64(ex, st, args, ins, fn):
    X = bv_one(ex, st, args[0])
    if X is not None:
        if X.nn:
            return True if X.size() <= 65 else z3.Extract(X.size() - 1, 64, X.t) == 0
        if X.size() <= 65:
            return X.t >= 0
        return z3.And(X.t >= 0, X.t < (1 << 64))
    x = bigv(ex, st, args[0])
    if isinstance(x, int):
        return 0 <= x < (1 << 64)
    return z3.And(x >= 0, x < (1 << 64))


@model('(*math/big.Int).BitLen')
def m_big_bitlen(ex, st, args, ins, fn):
    X = bv_one(ex, st, args[0])
    if X is not None:
        ax = X.abs().t
        w = ax.size()
        # n = BitLen(|x|): a fresh word pinned by 2^(n-1) <= |x| < 2^n (|x| = 0 for n = 0)
        key = ('bitlen', ax.get_id())
        n = st.ghost.get(key)
        if n is None:
            n = z3.BitVec(ex.fresh_name('bitlen'), 64)
            nw = z3.ZeroExt(w - 64, n) if w > 64 else z3.Extract(w - 1, 0, n)
            one = z3.BitVecVal(1, w)
            # 2^(n-1) <= |x| < 2^n through a one-hot decoder of n (cheaper than shifting |x|)
            ex.add_constraint(st, z3.And(z3.ULE(n, w - 1), z3.ULT(ax, one << nw),
                                         z3.If(n == 0, ax == 0, z3.ULE(one << (nw - one), ax))))
            st.ghost[key] = n
            st.ghost[('keep', ax.get_id())] = ax
        return n
    x = bigv(ex, st, args[0])
    if isinstance(x, int):
        return abs(x).bit_length()
    # symbolic: bounded ite chain up to 256 bits (|x| < 2^k)
    ax = z3.If(x >= 0, x, -x)
    r = z3.BitVecVal(257, 64)
    for k in range(256, -1, -1):
        r = z3.If(ax < (1 << k), z3.BitVecVal(k, 64), r)
    return r


@model('(*math/big.Int).Lsh')
def m_big_lsh(ex, st, args, ins, fn):
    x = bigv(ex, st, args[1])
    n = args[2]
    if not isinstance(n, int):
        raise Unsupported('big.Lsh by symbolic amount')
    X = bv_one(ex, st, args[1])
    if X is not None and X.size() + n <= BIG_BV_MAXW:
        return bigset_bv(ex, st, args[0], X.ext(X.size() + n) << n, X.nn)
    return bigset(ex, st, args[0], x * (1 << n))


@model('(*math/big.Int).Rsh')
def m_big_rsh(ex, st, args, ins, fn):
    x = bigv(ex, st, args[1])
    n = args[2]
    if not isinstance(n, int):
        raise Unsupported('big.Rsh by symbolic amount')
    X = bv_one(ex, st, args[1])
    if X is not None:
        return bigset_bv(ex, st, args[0], X.t >> min(n, X.size() - 1), X.nn)   # arithmetic shift (floor)
    if isinstance(x, int):
        return bigset(ex, st, args[0], x >> n)
    return bigset(ex, st, args[0], x / (1 << n))   # floor division, as Go's arithmetic shift


@model('(*math/big.Int).Exp')
def m_big_exp(ex, st, args, ins, fn):
    x, y = bigv(ex, st, args[1]), bigv(ex, st, args[2])
    m = bigv(ex, st, args[3]) if args[3] is not None else 0
    if isinstance(x, int) and isinstance(y, int) and isinstance(m, int):
        if y < 0:
            return bigset(ex, st, args[0], 1)
        return bigset(ex, st, args[0], pow(x, y, abs(m)) if m != 0 else x ** y)
    raise Unsupported('symbolic big.Exp')


@model('(*math/big.Int).SetBytes')
def m_big_setbytes(ex, st, args, ins, fn):
    el = ex.slice_elems(st, args[1])
    if all(isinstance(e, int) for e in el):
        return bigset(ex, st, args[0], int.from_bytes(bytes(el), 'big'))
    if bvmode(ex):
        wide = z3.Concat(*[bv(e, 8) for e in el]) if len(el) > 1 else bv(el[0], 8)
        return bigset_bv(ex, st, args[0], z3.ZeroExt(1, wide), True)
    v = z3.IntVal(0)
    for e in el:
        v = v * 256 + z3.BV2Int(bv(e, 8), False)
    return bigset(ex, st, args[0], v)


@model('(*math/big.Int).Bytes')
def m_big_bytes(ex, st, args, ins, fn):
    x = bigv(ex, st, args[0])
    if isinstance(x, int):
        x = abs(x)
        b = x.to_bytes((x.bit_length() + 7) // 8, 'big')
        c = ex.new_cell(st, tuple(b))
        return Slice(Ptr(c, ()), 0, len(b), len(b))
    X = bv_one(ex, st, args[0])
    if X is not None:
        ax = X.abs().t
        w = ax.size()
        nb = (w - 1 + 7) // 8                       # ax < 2^(w-1)
        axp = z3.ZeroExt(8 * nb + 8 - w, ax)        # width 8*nb+8
        W = axp.size()
        conds = [axp == 0] + [z3.And(z3.UGE(axp, z3.BitVecVal(256 ** (L - 1), W)), z3.ULT(axp, z3.BitVecVal(256 ** L, W)))
                              for L in range(1, nb + 1)]
        L = ex.choose(st, conds)
        elems = tuple(z3.simplify(z3.Extract(8 * (L - i) - 1, 8 * (L - i) - 8, axp)) for i in range(L))
        elems = tuple(e.as_long() if z3.is_bv_value(e) else e for e in elems)
        c = ex.new_cell(st, elems)
        return Slice(Ptr(c, ()), 0, L, L)
    # symbolic: case split on the byte length L (0..33), then fresh bytes tied to the value by a
    # linear integer equation (|x| = sum b_i * 256^(L-1-i), leading byte non-zero)
    ax = z3.If(x >= 0, x, -x)
    maxl = int(ex.opts.get('big_bytes_max', 33))
    conds = [ax == 0] + [z3.And(ax >= 256 ** (L - 1), ax < 256 ** L) for L in range(1, maxl + 1)] + [ax >= 256 ** maxl]
    L = ex.choose(st, conds)
    if L > maxl:
        raise Unsupported('Bytes of a symbolic big.Int longer than %d bytes' % maxl)
    key = ('bigbytes', x.get_id())
    elems = st.ghost.get(key)
    if elems is None or len(elems) != L:
        elems = tuple(z3.BitVec(ex.fresh_name('bigb'), 8) for _ in range(L))
        if L:
            total = z3.Sum([z3.BV2Int(e, False) * (256 ** (L - 1 - i)) for i, e in enumerate(elems)])
            ex.add_constraint(st, total == ax)
        st.ghost[key] = elems
    c = ex.new_cell(st, elems)
    return Slice(Ptr(c, ()), 0, L, L)


@model('github.com/lianxiangcloud/linkchain/libs/math.ReadBits')
def m_math_readbits(ex, st, args, ins, fn):
    """ReadBits(x, buf): buf = big-endian low len(buf) bytes of |x| (a loop over big.Int words in the source)"""
    b = bigobj(ex, st, args[0])
    buf = args[1]
    n = buf.len
    if isinstance(b.v, int):
        ax = abs(b.v) & ((1 << (8 * n)) - 1)
        elems = tuple(ax.to_bytes(n, 'big')) if n else ()
    else:
        if b.bv is None:
            raise Unsupported('ReadBits of a symbolic big.Int without a bit-vector view')
        ax = SBV(b.bv, b.nn).abs().t
        W = max(ax.size(), 8 * n)
        axp = z3.ZeroExt(W - ax.size(), ax) if W > ax.size() else ax
        elems = tuple(z3.simplify(z3.Extract(8 * (n - i) - 1, 8 * (n - i) - 8, axp)) for i in range(n))
        elems = tuple(e.as_long() if z3.is_bv_value(e) else e for e in elems)
    if n:
        arr = ex.load(st, buf.base)
        ex.store(st, buf.base, arr[:buf.off] + tuple(elems) + arr[buf.off + n:])
    return None


@model('github.com/lianxiangcloud/linkchain/libs/math.bigEndianByteAt')
def m_math_byteat(ex, st, args, ins, fn):
    """bigEndianByteAt(x, n): byte n of |x| counted from the least significant one (word indexing in the source)"""
    b = bigobj(ex, st, args[0])
    n = args[1]
    if not isinstance(n, int):
        raise Unsupported('bigEndianByteAt at a symbolic position')
    if n < 0:
        raise GoPanic('index-out-of-range', None, 'bigEndianByteAt negative position')
    if isinstance(b.v, int):
        return (abs(b.v) >> (8 * n)) & 0xFF
    if b.bv is None:
        raise Unsupported('bigEndianByteAt of a symbolic big.Int without a bit-vector view')
    ax = SBV(b.bv, b.nn).abs().t
    if 8 * n >= ax.size():
        return 0
    hi = min(8 * n + 7, ax.size() - 1)
    e = z3.Extract(hi, 8 * n, ax)
    if e.size() < 8:
        e = z3.ZeroExt(8 - e.size(), e)
    return z3.simplify(e)


@model('(*math/big.Int).Bit')
def m_big_bit(ex, st, args, ins, fn):
    b = bigobj(ex, st, args[0])
    i = args[1]
    if not isinstance(i, int):
        raise Unsupported('big.Bit at a symbolic position')
    if isinstance(b.v, int):
        return (b.v >> i) & 1
    if b.bv is None:
        raise Unsupported('Bit of a symbolic big.Int without a bit-vector view')
    X = SBV(b.bv, b.nn).ext(max(b.bv.size(), i + 1))
    return z3.ZeroExt(63, z3.Extract(i, i, X))


@model('(*math/big.Int).SetString')
def m_big_setstring(ex, st, args, ins, fn):
    s, base = args[1], args[2]
    if isinstance(s, bytes) and isinstance(base, int):
        try:
            v = int(s.decode(), base)
        except ValueError:
            return (None, False)
        bigset(ex, st, args[0], v)
        return (args[0], True)
    raise Unsupported('symbolic big.SetString')


@model('(*math/big.Int).String', '(*math/big.Int).Text')
def m_big_string(ex, st, args, ins, fn):
    if args[0] is None:
        return b'<nil>'
    x = bigv(ex, st, args[0])
    if isinstance(x, int):
        return str(x).encode()
    return StrAtom('big.String#%d' % st.nsteps)


@model('(*math/big.Int).And', '(*math/big.Int).Or', '(*math/big.Int).Xor', '(*math/big.Int).Not')
def m_big_bitop(ex, st, args, ins, fn):
    op = fn['short']
    if bvmode(ex):
        if op == 'Not':
            X = bv_one(ex, st, args[1])
            if X is not None:
                return bigset_bv(ex, st, args[0], ~X.t)
        else:
            pr = bv_pair(ex, st, args[1], args[2])
            if pr is not None:
                w = max(pr[0].size(), pr[1].size())
                A, B = pr[0].ext(w), pr[1].ext(w)
                nn = (pr[0].nn or pr[1].nn) if op == 'And' else (pr[0].nn and pr[1].nn)
                return bigset_bv(ex, st, args[0], {'And': A & B, 'Or': A | B, 'Xor': A ^ B}[op], nn)
    x = bigv(ex, st, args[1])
    y = bigv(ex, st, args[2]) if len(args) > 2 else 0
    if isinstance(x, int) and isinstance(y, int):
        op = fn['short']
        r = {'And': x & y, 'Or': x | y, 'Xor': x ^ y, 'Not': ~x}[op]
        return bigset(ex, st, args[0], r)
    raise Unsupported('symbolic big bit operation')


# ---------------------------------------------------------------- misc
@model('reflect.TypeOf', 'reflect.ValueOf')
def m_reflect_typeof(ex, st, args, ins, fn):
    # only ever passed on to logging; any other use aborts as unsupported (opaque value)
    return Opaque('reflect:%s@%s' % (fn['short'], ins.get('pos', '')))


@model('time.Now')
def m_time_now(ex, st, args, ins, fn):
    # Default: a concrete clock that advances one second per reading (time arithmetic multiplies and
    # divides by 10^9 on 64 bits, which no back end decides when the instant is symbolic).
    # With //verif:opt time=symbolic the instant is an arbitrary value instead.
    if ex.opts.get('time') != 'symbolic':
        k = st.ghost.get('clock', 0) + 1
        st.ghost['clock'] = k
        return (0, 63800000000 + k, None)   # wall = 0 (no monotonic reading), ext = seconds since year 1
    ns = z3.BitVec(ex.fresh_name('now_ns'), 64)
    sec = z3.BitVec(ex.fresh_name('now_s'), 64)
    c = z3.And(z3.ULT(ns, 1000000000), sec >= 0, sec < (1 << 40))
    ex.add_constraint(st, c)
    return (ns, sec, None)


@model('runtime.NumCPU')
def m_numcpu(ex, st, args, ins, fn):
    import os
    ex.models_used.add('runtime.NumCPU (this machine)') if hasattr(ex, 'models_used') else None
    return os.cpu_count() or 1


@model('runtime.SetFinalizer', 'os.Exit', 'runtime.GC', 'runtime/debug.PrintStack', 'time.Sleep')
def m_noop(ex, st, args, ins, fn):
    if fn['name'] == 'os.Exit':
        raise GoPanic('os.Exit', None, ins.get('pos', ''))
    return zero_results(ex, ins)


@model('math/bits.Len64', 'math/bits.Len', 'math/bits.Len32', 'math/bits.Len8')
def m_bits_len(ex, st, args, ins, fn):
    x = args[0]
    if isinstance(x, int):
        return x.bit_length()
    return NotImplemented


# ---------------------------------------------------------------- files (os.File = a byte buffer)
class FileVal:
    __slots__ = ('content', 'pos', 'name')

    def __init__(self, content=(), pos=0, name=b'file'):
        self.content = content
        self.pos = pos
        self.name = name


def _file(ex, st, p):
    if p is None:
        raise GoPanic('nil-deref', None, 'os.File method on nil')
    fv = ex.load(st, p)
    if not isinstance(fv, FileVal):
        raise Unsupported('os.File model: not a modelled file')
    return fv


@model('os.CreateTemp', 'io/ioutil.TempFile', 'os.Create')
def m_file_create(ex, st, args, ins, fn):
    c = ex.new_cell(st, FileVal((), 0, b'verif-file-%d' % st.next_cell))
    return (Ptr(c, ()), None)


def _fs(st):
    return dict(st.ghost.get('fs', ()))


def _fs_set(st, fs):
    st.ghost['fs'] = tuple(sorted(fs.items()))


def _path(x):
    if not isinstance(x, (bytes, str)):
        raise Unsupported('file model: symbolic or opaque path')
    return x if isinstance(x, bytes) else x.encode()


@model('(*os.File).Write')
def m_file_write(ex, st, args, ins, fn):
    fv = _file(ex, st, args[0])
    if st.ghost.get('write_fault'):
        # verifFaultWrites(true): the device takes no more data (natively: RLIMIT_FSIZE = 0 -> EFBIG)
        return (0, Opaque('os:EFBIG'))
    data = tuple(ex.slice_elems(st, args[1]))
    content = fv.content + data          # opened O_APPEND: writes go to the end
    ex.store(st, args[0], FileVal(content, len(content), fv.name))
    fs = _fs(st)
    if fv.name in fs:
        fs[fv.name] = content
        _fs_set(st, fs)
    return (len(data), None)


@model('os.OpenFile')
def m_os_openfile(ex, st, args, ins, fn):
    name, flag = _path(args[0]), args[1]
    if not isinstance(flag, int):
        raise Unsupported('file model: symbolic open flags')
    fs = _fs(st)
    O_CREATE, O_TRUNC = 0o100, 0o1000
    if name not in fs:
        if not flag & O_CREATE:
            return (None, Opaque('os:ENOENT'))
        fs[name] = ()
    if flag & O_TRUNC:
        fs[name] = ()
    _fs_set(st, fs)
    c = ex.new_cell(st, FileVal(fs[name], len(fs[name]), name))
    return (Ptr(c, ()), None)


@model('os.WriteFile', 'io/ioutil.WriteFile')
def m_os_writefile(ex, st, args, ins, fn):
    name = _path(args[0])
    if st.ghost.get('write_fault'):
        return Opaque('os:EFBIG')
    fs = _fs(st)
    fs[name] = tuple(ex.slice_elems(st, args[1]))
    _fs_set(st, fs)
    return None


@model('os.ReadFile', 'io/ioutil.ReadFile')
def m_os_readfile(ex, st, args, ins, fn):
    name = _path(args[0])
    fs = _fs(st)
    if name not in fs:
        return (None, Opaque('os:ENOENT'))
    content = fs[name]
    c = ex.new_cell(st, tuple(content))
    return (Slice(Ptr(c, ()), 0, len(content), len(content)), None)


@model('os.Rename')
def m_os_rename(ex, st, args, ins, fn):
    old, new = _path(args[0]), _path(args[1])
    fs = _fs(st)
    if old not in fs:
        return Opaque('os:ENOENT')
    fs[new] = fs.pop(old)
    _fs_set(st, fs)
    return None


@model('(*os.File).Truncate')
def m_file_truncate(ex, st, args, ins, fn):
    fv = _file(ex, st, args[0])
    n = args[1]
    if not isinstance(n, int):
        n = ex.concretize(st, n, 64, limit=ex.opts.get('max_split', 64), what='truncate length')
    if n < 0:
        return Opaque('os:EINVAL')
    content = fv.content[:n] + (0,) * max(0, n - len(fv.content))
    ex.store(st, args[0], FileVal(content, fv.pos, fv.name))
    return None


@model('(*os.File).Sync', '(*os.File).Close')
def m_file_sync(ex, st, args, ins, fn):
    _file(ex, st, args[0])
    return None


@model('(*os.File).Name')
def m_file_name(ex, st, args, ins, fn):
    return _file(ex, st, args[0]).name


@model('(*os.File).Seek')
def m_file_seek(ex, st, args, ins, fn):
    fv = _file(ex, st, args[0])
    off, whence = args[1], args[2]
    if not isinstance(off, int) or not isinstance(whence, int):
        raise Unsupported('symbolic Seek')
    pos = off if whence == 0 else (fv.pos + off if whence == 1 else len(fv.content) + off)
    ex.store(st, args[0], FileVal(fv.content, pos, fv.name))
    return (pos, None)


@model('(*os.File).Stat')
def m_file_stat(ex, st, args, ins, fn):
    fv = _file(ex, st, args[0])
    return (Iface(-2, len(fv.content)), None)


@model('(*os.File).Read')
def m_file_read(ex, st, args, ins, fn):
    fv = _file(ex, st, args[0])
    dst = args[1]
    n = min(dst.len, max(0, len(fv.content) - fv.pos))
    if n == 0:
        if dst.len == 0:
            return (0, None)
        return (0, Opaque('io.EOF'))
    arr = ex.load(st, dst.base)
    arr = arr[:dst.off] + tuple(fv.content[fv.pos:fv.pos + n]) + arr[dst.off + n:]
    ex.store(st, dst.base, arr)
    ex.store(st, args[0], FileVal(fv.content, fv.pos + n, fv.name))
    return (n, None)


@model('os.Remove', 'os.RemoveAll')
def m_os_remove(ex, st, args, ins, fn):
    if isinstance(args[0], (bytes, str)):
        fs = _fs(st)
        if fs.pop(_path(args[0]), None) is not None:
            _fs_set(st, fs)
    return None


def iface_fileinfo(ex, st, x, mname, args, ins):
    if not isinstance(x, Iface) or x.t != -2:
        raise Unsupported('FileInfo of an unmodelled file')
    if mname == 'Size':
        return x.v
    raise Unsupported('FileInfo.' + mname)


IFACE_MODELS['io/fs.FileInfo'] = iface_fileinfo
IFACE_MODELS['os.FileInfo'] = iface_fileinfo


# ---------------------------------------------------------------- sync.Map (association list per map object)
def _syncmap(ex, st, p):
    return ('syncmap', p.cell, p.path)


@model('(*sync.Map).Store')
def m_syncmap_store(ex, st, args, ins, fn):
    k = _syncmap(ex, st, args[0])
    ent = [(kk, vv) for (kk, vv) in st.ghost.get(k, ()) if ex.iface_eq(st, kk, args[1]) is not True]
    for (kk, vv) in ent:
        if ex.iface_eq(st, kk, args[1]) is not False:
            raise Unsupported('sync.Map with symbolically equal keys')
    st.ghost[k] = tuple(ent) + ((args[1], args[2]),)
    return None


@model('(*sync.Map).Load')
def m_syncmap_load(ex, st, args, ins, fn):
    for (kk, vv) in st.ghost.get(_syncmap(ex, st, args[0]), ()):
        c = ex.iface_eq(st, kk, args[1])
        if c is True:
            return (vv, True)
        if c is not False:
            raise Unsupported('sync.Map with symbolically equal keys')
    return (None, False)


@model('(*sync.Map).Delete')
def m_syncmap_delete(ex, st, args, ins, fn):
    k = _syncmap(ex, st, args[0])
    ent = []
    for (kk, vv) in st.ghost.get(k, ()):
        c = ex.iface_eq(st, kk, args[1])
        if c is True:
            continue
        if c is not False:
            raise Unsupported('sync.Map with symbolically equal keys')
        ent.append((kk, vv))
    st.ghost[k] = tuple(ent)
    return None


# ---------------------------------------------------------------- sync.Pool (LIFO free list per pool object: the
# single-goroutine behaviour of the real pool, and the one under which buffer reuse is visible)
@model('(*sync.Pool).Get')
def m_pool_get(ex, st, args, ins, fn):
    k = ('syncpool', args[0].cell, args[0].path)
    items = st.ghost.get(k, ())
    if items:
        st.ghost[k] = items[:-1]
        return items[-1]
    newf = ex.load(st, args[0])[-1]      # the New field is the last one of sync.Pool
    if newf is None:
        return None
    return Redirect(newf, [])


@model('(*sync.Pool).Put')
def m_pool_put(ex, st, args, ins, fn):
    if args[1] is None:
        return None
    k = ('syncpool', args[0].cell, args[0].path)
    st.ghost[k] = st.ghost.get(k, ()) + (args[1],)
    return None


@model('internal/abi.NoEscape')
def m_abi_noescape(ex, st, args, ins, fn):
    return args[0]


def _gopath_clean(p):
    import posixpath
    if p == b'':
        return b'.'
    r = posixpath.normpath(p)
    if r.startswith(b'//'):
        r = r[1:]
    return r


@model('path/filepath.Join', 'path.Join')
def m_filepath_join(ex, st, args, ins, fn):
    elems = ex.slice_elems(st, args[0])
    if not all(isinstance(e, bytes) for e in elems):
        return NotImplemented
    parts = [e for e in elems if e != b'']
    if not parts:
        return b''
    return _gopath_clean(b'/'.join(parts))


@model('path/filepath.Dir', 'path.Dir')
def m_filepath_dir(ex, st, args, ins, fn):
    p = args[0]
    if not isinstance(p, bytes):
        return NotImplemented
    i = p.rfind(b'/')
    return _gopath_clean(p[:i + 1])


# ---------------------------------------------------------------- sync/atomic.Value (one slot per Value object)
@model('(*sync/atomic.Value).Store')
def m_atomicvalue_store(ex, st, args, ins, fn):
    if args[1] is None:
        raise GoPanic('explicit', None, 'sync/atomic: store of nil value into Value')
    st.ghost[('atomicvalue', args[0].cell, args[0].path)] = args[1]
    return None


@model('(*sync/atomic.Value).Load')
def m_atomicvalue_load(ex, st, args, ins, fn):
    return st.ghost.get(('atomicvalue', args[0].cell, args[0].path))


@model('(*sync.WaitGroup).Wait')
def m_waitgroup_wait(ex, st, args, ins, fn):
    pend = st.ghost.get('go_pending', ())
    if pend:
        (callee, gargs, gins) = pend[0]
        st.ghost['go_pending'] = pend[1:]
        return Redirect(callee, list(gargs), stay=True, ins=gins)
    return zero_results(ex, ins)
