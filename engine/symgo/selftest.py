# Engine self-test: runs the selftest harnesses (expected verdicts known) symbolically and
# replays every witness natively; any mismatch fails setup.
import json, os, sys, shutil
from . import run as R, replay as RP

EXPECT = {
    'H_ST_abs': {'abs-nonneg': 'proved'},
    'H_ST_abs_bad': {'abs-nonneg-bad': 'viol'},
    'H_ST_slice': {'sum-bound': 'proved', 'panic:index-out-of-range': 'viol'},
    'H_ST_map': {'map-size': 'proved', 'collide-means-equal': 'proved', 'tot': 'proved'},
    'H_ST_bitarray': {'set-fail-oob': 'proved', 'set-get': 'viol', 'panic:index-out-of-range': 'viol'},
    'H_ST_iface': {'area': 'proved', 'assert-type': 'proved'},
    'H_ST_recover': {'recovered-iff-oob': 'proved'},
}


def main():
    W = os.path.join(R.VERIF, '.work', 'selftest_%d' % os.getpid())
    hf = [os.path.join(R.VERIF, 'selftest', 'st_basic.go')]
    bad = []
    try:
        res = R.run_harnesses('libs/common', hf, W)
        jobs = []
        for r in res:
            exp = EXPECT.get(r['harness'], {})
            if r['inconclusive']:
                bad.append('%s inconclusive %r' % (r['harness'], r['inconclusive'][:1]))
            for label, a in r['asserts'].items():
                key = label.split('@')[0]
                want = exp.get(key)
                got = 'viol' if a['nviol'] else 'proved'
                if want != got:
                    bad.append('%s %s: want %s got %s' % (r['harness'], label, want, got))
            for k in exp:
                if not any(l.split('@')[0] == k for l in r['asserts']):
                    bad.append('%s: obligation %s missing' % (r['harness'], k))
            for w in r['violations']:
                jobs.append(dict(harness=r['harness'], witness=w, want=w['label'] if w['kind'] == 'assert' else 'panic'))
            for l, w in r['reach'].items():
                jobs.append(dict(harness=r['harness'], witness=w, want=l))
        ov = RP.native_overlay(W, 'libs/common', hf)
        outs, log = RP.run_jobs('libs/common', ov, jobs, W)
        if outs is None:
            bad.append('native replay failed to build/run: ' + log[-800:])
        else:
            for j, o in zip(jobs, outs):
                if not RP.reproduces(j['witness'], o):
                    bad.append('replay mismatch %s %s' % (j['harness'], j['witness']['label']))
        n = len(jobs)
    finally:
        shutil.rmtree(W, ignore_errors=True)
    if bad:
        print('SELFTEST FAILED')
        for b in bad:
            print('  ', b)
        return 1
    print('selftest ok: %d harnesses, %d witnesses replayed natively' % (len(res), n))
    return 0


if __name__ == '__main__':
    sys.exit(main())
