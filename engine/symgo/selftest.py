# Engine self-test: runs the selftest harnesses (expected verdicts known) symbolically and
# replays every witness natively; any mismatch fails setup.
import json, os, sys, shutil
from . import run as R, replay as RP

EXPECT = {
    'H_ST_abs': {'abs-nonneg': 'proved'},
    'H_ST_abs_bad': {'abs-nonneg-bad': 'viol'},
    'H_ST_slice': {'sum-bound': 'proved', 'panic:index-out-of-range': 'viol'},
    'H_ST_map': {'map-size': 'proved', 'collide-means-equal': 'proved', 'tot': 'proved'},
    'H_ST_bitarray': {'set-fail-oob': 'proved', 'set-get': 'viol', 'panic:index-out-of-range': 'viol'},
    'H_ST_iface': {'area': 'proved', 'assert-type': 'proved'},
    'H_ST_recover': {'recovered-iff-oob': 'proved'},
    'H_ST_bigbv_words': {
        'wide-is-not-uint64': 'proved', 'wide-has-nine-bytes': 'proved', 'narrow-sum-is-the-machine-sum': 'proved',
        'probe-low-word-of-wide-sum': 'viol', 'uint64-of-negative-is-low-word-of-magnitude': 'proved',
        'int64-of-negative-wraps': 'proved', 'masked-negative-is-positive': 'proved',
        'mask-adds-two-to-the-256': 'proved', 'probe-uint64-of-negative': 'viol', 'bits-of-masked-negative': 'proved',
        'bytes-roundtrip': 'proved', 'difference-magnitude': 'proved', 'neg-is-additive-inverse': 'proved',
        'abs-nonneg': 'proved', 'not-is-minus-x-minus-one': 'proved'},
    'H_ST_bigbv_division': {
        'euclidean-remainder-range': 'proved', 'truncated-minus-seven-by-two': 'proved', 'seven-by-minus-two': 'proved',
        'probe-truncated-quotient': 'viol', 'probe-truncated-remainder': 'viol', 'minus-seven-by-two': 'proved', 'probe-euclidean-quotient': 'viol',
        'probe-euclidean-remainder-negative-operands': 'viol', 'floor-below-truncation': 'proved'},
    'H_ST_bigbv_shifts_and_bytes': {
        'five-bytes-fit-forty-bits': 'proved', 'lsh-adds-bits': 'proved', 'rsh-inverts-lsh': 'proved',
        'bytes-are-minimal': 'proved', 'leading-zero-bytes-dropped': 'proved', 'probe-setbytes-is-big-endian': 'viol',
        'triple-fits-forty-two-bits': 'proved', 'probe-product': 'viol', 'rsh-of-negative-floors': 'proved', 'rsh-negative-symbolic-floors': 'proved',
        'or-xor-low-bit': 'proved'},
}


def main():
    W = os.path.join(R.VERIF, '.work', 'selftest_%d' % os.getpid())
    hf = [os.path.join(R.VERIF, 'selftest', 'st_basic.go'), os.path.join(R.VERIF, 'selftest', 'st_bigbv.go')]
    bad = []
    try:
        res = R.run_harnesses('libs/common', hf, W)
        jobs = []
        for r in res:
            exp = EXPECT.get(r['harness'], {})
            if r['inconclusive']:
                bad.append('%s inconclusive %r' % (r['harness'], r['inconclusive'][:1]))
            for label, a in r['asserts'].items():
                key = label.split('@')[0]
                want = exp.get(key)
                got = 'viol' if a['nviol'] else 'proved'
                if want != got:
                    bad.append('%s %s: want %s got %s' % (r['harness'], label, want, got))
            for k in exp:
                if not any(l.split('@')[0] == k for l in r['asserts']):
                    bad.append('%s: obligation %s missing' % (r['harness'], k))
            for w in r['violations']:
                jobs.append(dict(harness=r['harness'], witness=w, want=w['label'] if w['kind'] == 'assert' else 'panic'))
            for l, w in r['reach'].items():
                jobs.append(dict(harness=r['harness'], witness=w, want=l))
        ov = RP.native_overlay(W, 'libs/common', hf)
        outs, log = RP.run_jobs('libs/common', ov, jobs, W)
        if outs is None:
            bad.append('native replay failed to build/run: ' + log[-800:])
        else:
            for j, o in zip(jobs, outs):
                if not RP.reproduces(j['witness'], o):
                    bad.append('replay mismatch %s %s' % (j['harness'], j['witness']['label']))
        n = len(jobs)
    finally:
        shutil.rmtree(W, ignore_errors=True)
    if bad:
        print('SELFTEST FAILED')
        for b in bad:
            print('  ', b)
        return 1
    print('selftest ok: %d harnesses, %d witnesses replayed natively' % (len(res), n))
    return 0


if __name__ == '__main__':
    sys.exit(main())
