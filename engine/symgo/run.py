# Harness runner: builds the overlay, starts ssaserve, runs harnesses, returns results.
import json
import os
import re
import sys
import time
import glob

from .server import Server
from .explore import Executor

HERE = os.path.dirname(os.path.abspath(__file__))
VERIF = os.path.abspath(os.path.join(HERE, '..', '..'))
REPO = os.environ.get('VERIF_REPO', '/repo')
MODULE = 'github.com/lianxiangcloud/linkchain'


def pkg_name(pkgdir):
    for fn in sorted(glob.glob(os.path.join(REPO, pkgdir, '*.go'))):
        if fn.endswith('_test.go'):
            continue
        for line in open(fn, errors='replace'):
            m = re.match(r'^package\s+(\w+)', line)
            if m:
                return m.group(1)
    raise RuntimeError('no package in ' + pkgdir)


def parse_harnesses(path):
    """returns list of (name, opts dict, stubs dict) from a harness file"""
    out = []
    pend_opts, pend_stubs = {}, {}
    file_opts, file_stubs = {}, {}
    noops, noopifaces = [], []
    for line in open(path):
        m = re.match(r'^//verif:noop\s+(\S+)', line)
        if m:
            noops.append(m.group(1))
            continue
        m = re.match(r'^//verif:noopiface\s+(\S+)', line)
        if m:
            noopifaces.append(m.group(1))
            continue
        m = re.match(r'^//verif:opt\s+(.*)$', line)
        if m:
            for kv in m.group(1).split():
                k, v = kv.split('=', 1)
                try:
                    v = int(v)
                except ValueError:
                    pass
                pend_opts[k] = v
            continue
        m = re.match(r'^//verif:fileopt\s+(.*)$', line)
        if m:
            for kv in m.group(1).split():
                k, v = kv.split('=', 1)
                try:
                    v = int(v)
                except ValueError:
                    pass
                file_opts[k] = v
            continue
        m = re.match(r'^//verif:stub\s+(\S+)\s*=>\s*(\S+)', line)
        if m:
            pend_stubs[m.group(1)] = m.group(2)
            continue
        m = re.match(r'^//verif:filestub\s+(\S+)\s*=>\s*(\S+)', line)
        if m:
            file_stubs[m.group(1)] = m.group(2)
            continue
        m = re.match(r'^func (H_\w+)\(\)', line)
        if m:
            o = dict(file_opts)
            o.update(pend_opts)
            o['_noops'] = noops
            o['_noopifaces'] = noopifaces
            s = dict(file_stubs)
            s.update(pend_stubs)
            out.append((m.group(1), o, s))
            pend_opts, pend_stubs = {}, {}
            continue
        if not line.startswith('//'):
            pend_opts, pend_stubs = {}, {}
    return out


def make_overlay(workdir, pkgdir, harness_files, extra=None):
    os.makedirs(workdir, exist_ok=True)
    name = pkg_name(pkgdir)
    api = open(os.path.join(VERIF, 'engine', 'api', 'api_ssa.go.tmpl')).read().replace('PKGNAME', name)
    apipath = os.path.join(workdir, 'zz_verif_api.go')
    open(apipath, 'w').write(api)
    ov = {os.path.join(REPO, pkgdir, 'zz_verif_api.go'): apipath}
    for i, h in enumerate(harness_files):
        ov[os.path.join(REPO, pkgdir, 'zz_verif_h%d_%s' % (i, os.path.basename(h)))] = os.path.abspath(h)
    if extra:
        ov.update(extra)
    ovpath = os.path.join(workdir, 'overlay_ssa.json')
    json.dump(ov, open(ovpath, 'w'), indent=1)
    return ovpath


def qualify(pkgdir, name):
    """short harness-side names are qualified with the package import path"""
    if '/' in name or name.startswith('('):
        return name
    base = MODULE + '/' + pkgdir
    if '.' in name and not name.startswith('.'):
        # Type.Method or (*Type).Method short forms
        return name
    return base + '.' + name


def result_summary(ex, name, wall):
    viol = []
    for label, a in ex.asserts.items():
        for w in a['violations']:
            viol.append(w)
    return dict(
        harness=name,
        asserts={k: {kk: vv for kk, vv in v.items() if kk != 'violations'} | {'nviol': len(v['violations'])}
                 for k, v in ex.asserts.items()},
        violations=viol,
        reach={k: v for k, v in ex.reach.items()},
        reach_count=dict(ex.reach_count),
        ends=dict(ex.ends),
        inconclusive=list(ex.inconclusive),
        wall_s=wall,
    )


def run_harnesses(pkgdir, harness_files, workdir, only=None, base_opts=None, srv=None, verbose=False):
    own = srv is None
    if own:
        ov = make_overlay(workdir, pkgdir, harness_files)
        srv = Server(['./' + pkgdir], overlay=ov, repo=REPO)
    results = []
    try:
        for hf in harness_files:
            for (name, opts, stubs) in parse_harnesses(hf):
                if only and name not in only:
                    continue
                o = dict(base_opts or {})
                o.update(opts)
                ex = Executor(srv, o)
                ex.stubs = {k: qualify(pkgdir, v) for k, v in stubs.items()}
                t0 = time.time()
                try:
                    ex.run_harness(qualify(pkgdir, name), budget_s=o.get('budget_s', 600))
                except Exception as e:   # engine failure = inconclusive, never a pass
                    import traceback
                    ex.inconclusive.append(('engine-error', traceback.format_exc()[-1500:]))
                wall = time.time() - t0
                r = result_summary(ex, name, wall)
                r['stats'] = dict(ex.stats)
                r['funcs_encoded'] = dict(ex.funcs_encoded)
                r['models_used'] = sorted(ex.models_used)
                r['stubs_used'] = sorted(ex.stubs_used)
                r['opts'] = o
                r['queries_log'] = ex.queries_log
                results.append(r)
                if verbose:
                    print_result(r)
    finally:
        if own:
            srv.close()
    return results


def print_result(r):
    print('== %s  %.1fs  paths=%d forks=%d queries=%d (sat %d unsat %d unk %d) solver=%.1fs steps=%d' % (
        r['harness'], r['wall_s'], r['stats']['paths'], r['stats']['forks'], r['stats']['queries'],
        r['stats']['sat'], r['stats']['unsat'], r['stats']['unknown'], r['stats']['solver_s'], r['stats']['steps']))
    print('   ends:', r['ends'])
    for k, a in r['asserts'].items():
        print('   assert %-40s checked=%d proved=%d viol=%d unknown=%d' % (k, a['checked'], a['proved'], a['nviol'], a['unknown']))
    for w in r['violations']:
        print('   VIOL', w['label'], w['kind'], w['nondet'][:12], w.get('stack', ''))
    print('   reach:', {k: r['reach_count'].get(k) for k in r['reach']})
    for k, i in r['inconclusive'][:8]:
        print("   INCONCLUSIVE", k, i[-700:] if k == "engine-error" else i[:600])
    sys.stdout.flush()


if __name__ == '__main__':
    import argparse
    ap = argparse.ArgumentParser()
    ap.add_argument('pkgdir')
    ap.add_argument('harness', nargs='+')
    ap.add_argument('--only', action='append')
    ap.add_argument('--work', default=os.path.join(VERIF, '.work', 'adhoc'))
    args = ap.parse_args()
    run_harnesses(args.pkgdir, args.harness, args.work, only=args.only, verbose=True)
