# Value representations for the symbolic Go executor.
# All values are immutable; heap cells hold values; updates are functional.
import z3


class Ptr:
    __slots__ = ('cell', 'path')

    def __init__(self, cell, path=()):
        self.cell = cell
        self.path = path

    def __eq__(self, o):
        return isinstance(o, Ptr) and self.cell == o.cell and self.path == o.path

    def __hash__(self):
        return hash((self.cell, self.path))

    def __repr__(self):
        return 'Ptr(%r,%r)' % (self.cell, self.path)


class Slice:
    """base: Ptr to an array value (or None for nil); off/len/cap concrete ints."""
    __slots__ = ('base', 'off', 'len', 'cap')

    def __init__(self, base, off, ln, cp):
        self.base = base
        self.off = off
        self.len = ln
        self.cap = cp

    def __repr__(self):
        return 'Slice(%r,%d,%d,%d)' % (self.base, self.off, self.len, self.cap)


NILSLICE = Slice(None, 0, 0, 0)


class MapRef:
    __slots__ = ('cell',)

    def __init__(self, cell):
        self.cell = cell

    def __eq__(self, o):
        return isinstance(o, MapRef) and self.cell == o.cell

    def __hash__(self):
        return hash(('m', self.cell))

    def __repr__(self):
        return 'Map(%r)' % (self.cell,)


class ChanRef:
    __slots__ = ('cell',)

    def __init__(self, cell):
        self.cell = cell

    def __eq__(self, o):
        return isinstance(o, ChanRef) and self.cell == o.cell

    def __hash__(self):
        return hash(('c', self.cell))


class Iface:
    __slots__ = ('t', 'v')

    def __init__(self, t, v):
        self.t = t
        self.v = v

    def __repr__(self):
        return 'Iface(%r,%r)' % (self.t, self.v)


class Closure:
    __slots__ = ('fn', 'binds')

    def __init__(self, fn, binds=()):
        self.fn = fn
        self.binds = binds

    def __repr__(self):
        return 'Closure(%r)' % (self.fn,)


class Big:
    """value of a math/big.Int: python int or z3 ArithRef (Int sort).
    bv (optional, //verif:opt big_bv=1): a SIGNED two's-complement bit-vector term of any width with
    v == BV2Int(bv, signed) - machine-word and byte-string derived values keep it, so that
    Uint64/BitLen/And/... stay inside bit-vector reasoning."""
    __slots__ = ('v', 'bv', 'nn')

    def __init__(self, v, bv=None, nn=False):
        self.v = v
        self.bv = bv
        self.nn = nn        # bv is known to be non-negative (its top bit is zero)

    def __repr__(self):
        return 'Big(%r)' % (self.v,)


class StrAtom:
    """opaque string supporting only equality (by name)."""
    __slots__ = ('name',)

    def __init__(self, name):
        self.name = name

    def __eq__(self, o):
        return isinstance(o, StrAtom) and self.name == o.name

    def __hash__(self):
        return hash(('sa', self.name))

    def __repr__(self):
        return 'StrAtom(%r)' % (self.name,)


class Opaque:
    """opaque non-nil unique object (e.g. a global whose init is not encodable)."""
    __slots__ = ('name',)

    def __init__(self, name):
        self.name = name

    def __eq__(self, o):
        return isinstance(o, Opaque) and self.name == o.name

    def __hash__(self):
        return hash(('op', self.name))

    def __repr__(self):
        return 'Opaque(%r)' % (self.name,)


class Poison:
    """result of a non-encodable computation during lenient init evaluation."""
    __slots__ = ('why',)

    def __init__(self, why=''):
        self.why = why

    def __repr__(self):
        return 'Poison(%s)' % self.why


class MapIter:
    __slots__ = ('kind', 'items', 'pos', 'ref')

    def __init__(self, kind, items, pos, ref=None):
        self.kind = kind      # 'map' or 'str'
        self.items = items    # tuple of (k, v)
        self.pos = pos
        self.ref = ref


class MapVal:
    """content of a map cell: entries tuple of (key, value)."""
    __slots__ = ('entries',)

    def __init__(self, entries=()):
        self.entries = entries


class ChanVal:
    __slots__ = ('cap', 'q', 'closed')

    def __init__(self, cap, q=(), closed=False):
        self.cap = cap
        self.q = q
        self.closed = closed


def is_sym(v):
    return isinstance(v, z3.ExprRef)


INT_KINDS = {
    'int': (64, True), 'int8': (8, True), 'int16': (16, True), 'int32': (32, True), 'int64': (64, True),
    'uint': (64, False), 'uint8': (8, False), 'uint16': (16, False), 'uint32': (32, False), 'uint64': (64, False),
    'uintptr': (64, False), 'byte': (8, False), 'rune': (32, True),
    'untyped int': (64, True), 'untyped rune': (32, True),
}


def wrap(v, bits, signed):
    v &= (1 << bits) - 1
    if signed and v >> (bits - 1):
        v -= 1 << bits
    return v


class SymStr:
    """string with concrete length whose bytes may be symbolic (tuple of int / BV8)."""
    __slots__ = ('elems',)

    def __init__(self, elems):
        self.elems = tuple(elems)

    def __repr__(self):
        return 'SymStr(%r)' % (self.elems,)


def mkstr(elems):
    """build a string value from byte elements; concrete if all are ints"""
    if all(isinstance(e, int) for e in elems):
        return bytes(elems)
    return SymStr(elems)


def str_elems(s):
    if isinstance(s, bytes):
        return tuple(s)
    if isinstance(s, SymStr):
        return s.elems
    raise TypeError('not an indexable string: %r' % (s,))


class Redirect:
    """returned by a model: perform this call instead (e.g. sync.Pool.Get -> pool.New())"""
    __slots__ = ('callee', 'args', 'stay', 'ins')

    def __init__(self, callee, args, stay=False, ins=None):
        self.callee = callee
        self.args = args
        self.stay = stay      # re-execute the calling instruction afterwards (used to drain a queue)
        self.ins = ins
