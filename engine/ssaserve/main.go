// ssaserve: loads packages of /repo (plus overlay harness files), builds go/ssa
// and serves functions, types and method lookups as JSON lines on stdin/stdout.
// The Python executor (symgo) requests only what it reaches.
package main

import (
	"bufio"
	"encoding/hex"
	"encoding/json"
	"flag"
	"fmt"
	"go/constant"
	"go/token"
	"go/types"
	"os"
	"sort"
	"strings"

	"golang.org/x/tools/go/packages"
	"golang.org/x/tools/go/ssa"
	"golang.org/x/tools/go/ssa/ssautil"
	"golang.org/x/tools/go/types/typeutil"
)

type J = map[string]interface{}

type server struct {
	prog    *ssa.Program
	pkgs    map[string]*ssa.Package
	fset    *token.FileSet
	typeIDs typeutil.Map
	typeTab []types.Type
	fnIDs   map[*ssa.Function]int
	fnTab   []*ssa.Function
	glIDs   map[*ssa.Global]int
	glTab   []*ssa.Global
}

func main() {
	dir := flag.String("dir", "/repo", "module dir")
	overlay := flag.String("overlay", "", "json file {virtual path: real path}")
	tags := flag.String("tags", "verif", "build tags")
	flag.Parse()
	patterns := flag.Args()
	ov := map[string][]byte{}
	if *overlay != "" {
		b, err := os.ReadFile(*overlay)
		if err != nil {
			fatal(err)
		}
		m := map[string]string{}
		if err := json.Unmarshal(b, &m); err != nil {
			fatal(err)
		}
		for v, r := range m {
			c, err := os.ReadFile(r)
			if err != nil {
				fatal(err)
			}
			ov[v] = c
		}
	}
	cfg := &packages.Config{
		Mode:       packages.LoadAllSyntax,
		Dir:        *dir,
		Overlay:    ov,
		BuildFlags: []string{"-tags=" + *tags},
		Env:        append(os.Environ(), "GOFLAGS=-mod=mod", "GOPROXY=off", "GOSUMDB=off", "GOTOOLCHAIN=local"),
	}
	initial, err := packages.Load(cfg, patterns...)
	if err != nil {
		fatal(err)
	}
	nerr := 0
	packages.Visit(initial, nil, func(p *packages.Package) {
		for _, e := range p.Errors {
			// errors in dependency packages caused by cgo are tolerated only if types exist
			fmt.Fprintf(os.Stderr, "ssaserve: load error %s: %v\n", p.PkgPath, e)
			nerr++
		}
	})
	if nerr > 0 {
		fatal(fmt.Errorf("%d package load errors", nerr))
	}
	prog, _ := ssautil.AllPackages(initial, ssa.InstantiateGenerics)
	s := &server{prog: prog, pkgs: map[string]*ssa.Package{}, fnIDs: map[*ssa.Function]int{}, glIDs: map[*ssa.Global]int{}}
	for _, p := range prog.AllPackages() {
		s.pkgs[p.Pkg.Path()] = p
	}
	s.fset = prog.Fset
	out := bufio.NewWriterSize(os.Stdout, 1<<20)
	enc := json.NewEncoder(out)
	enc.SetEscapeHTML(false)
	enc.Encode(J{"ready": true, "npkgs": len(s.pkgs)})
	out.Flush()
	in := bufio.NewReaderSize(os.Stdin, 1<<20)
	for {
		line, err := in.ReadBytes('\n')
		if len(line) > 0 {
			var req J
			if e := json.Unmarshal(line, &req); e != nil {
				enc.Encode(J{"error": e.Error()})
			} else {
				resp := s.safeHandle(req)
				if e := enc.Encode(resp); e != nil {
					enc.Encode(J{"error": "encode: " + e.Error()})
				}
			}
			out.Flush()
		}
		if err != nil {
			return
		}
	}
}

func fatal(err error) {
	fmt.Fprintln(os.Stderr, "ssaserve:", err)
	os.Exit(2)
}

func (s *server) safeHandle(req J) (resp J) {
	defer func() {
		if r := recover(); r != nil {
			resp = J{"error": fmt.Sprint("panic: ", r)}
		}
	}()
	return s.handle(req)
}

func str(v interface{}) string {
	if v == nil {
		return ""
	}
	return v.(string)
}
func num(v interface{}) int { return int(v.(float64)) }

func (s *server) handle(req J) J {
	switch str(req["op"]) {
	case "lookup":
		fn, err := s.lookup(str(req["name"]))
		if err != nil {
			return J{"error": err.Error()}
		}
		return J{"f": s.fnID(fn)}
	case "func":
		return s.funcJSON(s.fnTab[num(req["id"])])
	case "type":
		return s.typeJSON(num(req["id"]))
	case "global":
		g := s.glTab[num(req["id"])]
		return J{"id": num(req["id"]), "name": g.String(), "pkg": g.Pkg.Pkg.Path(), "short": g.Name(), "t": s.typeID(g.Type())}
	case "method":
		T := s.typeTab[num(req["t"])]
		var pkg *types.Package
		if p := str(req["pkg"]); p != "" {
			if sp := s.pkgs[p]; sp != nil {
				pkg = sp.Pkg
			}
		}
		sel := s.prog.MethodSets.MethodSet(T).Lookup(pkg, str(req["name"]))
		if sel == nil {
			return J{"f": -1}
		}
		fn := s.prog.MethodValue(sel)
		if fn == nil {
			return J{"f": -1}
		}
		return J{"f": s.fnID(fn)}
	case "assertable":
		dyn := s.typeTab[num(req["dyn"])]
		to := s.typeTab[num(req["to"])]
		if it, ok := to.Underlying().(*types.Interface); ok {
			return J{"ok": types.Implements(dyn, it)}
		}
		return J{"ok": types.Identical(dyn, to)}
	case "ptrto":
		T := s.typeTab[num(req["t"])]
		return J{"t": s.typeID(types.NewPointer(T))}
	case "initstores":
		// all Store instructions to a global in its package's init functions
		g := s.glTab[num(req["id"])]
		return s.initStores(g)
	case "funcs":
		// names of package-level functions of a package with a prefix
		p := s.pkgs[str(req["pkg"])]
		if p == nil {
			return J{"error": "no package " + str(req["pkg"])}
		}
		var names []string
		for n, m := range p.Members {
			if f, ok := m.(*ssa.Function); ok && strings.HasPrefix(n, str(req["prefix"])) {
				names = append(names, f.String())
			}
		}
		sort.Strings(names)
		return J{"names": names}
	case "structfields":
		// fields of a named struct type pkg.Name
		p := s.pkgs[str(req["pkg"])]
		if p == nil {
			return J{"error": "no package"}
		}
		t := p.Type(str(req["name"]))
		if t == nil {
			return J{"error": "no type"}
		}
		st, ok := t.Type().Underlying().(*types.Struct)
		if !ok {
			return J{"error": "not struct"}
		}
		var fs []J
		for i := 0; i < st.NumFields(); i++ {
			fs = append(fs, J{"n": st.Field(i).Name(), "t": st.Field(i).Type().String(), "tag": st.Tag(i)})
		}
		return J{"fields": fs, "t": s.typeID(t.Type())}
	case "callers":
		return s.callers(req)
	case "namedtype":
		p := s.pkgs[str(req["pkg"])]
		if p == nil {
			return J{"error": "no package"}
		}
		t := p.Type(str(req["name"]))
		if t == nil {
			return J{"error": "no type"}
		}
		return J{"t": s.typeID(t.Type())}
	}
	return J{"error": "unknown op"}
}

// lookup resolves names in the format produced by (*ssa.Function).String():
// pkg/path.Func, (pkg/path.T).M, (*pkg/path.T).M
func (s *server) lookup(name string) (*ssa.Function, error) {
	if strings.HasPrefix(name, "(") {
		end := strings.LastIndex(name, ").")
		if end < 0 {
			return nil, fmt.Errorf("bad method name %q", name)
		}
		recv := name[1:end]
		meth := name[end+2:]
		ptr := strings.HasPrefix(recv, "*")
		recv = strings.TrimPrefix(recv, "*")
		dot := strings.LastIndex(recv, ".")
		pkg := s.pkgs[recv[:dot]]
		if pkg == nil {
			return nil, fmt.Errorf("no package %q", recv[:dot])
		}
		t := pkg.Type(recv[dot+1:])
		if t == nil {
			return nil, fmt.Errorf("no type %q", recv)
		}
		var T types.Type = t.Type()
		if ptr {
			T = types.NewPointer(T)
		}
		fn := s.prog.LookupMethod(T, pkg.Pkg, meth)
		if fn == nil {
			return nil, fmt.Errorf("no method %q", name)
		}
		return fn, nil
	}
	dot := strings.LastIndex(name, ".")
	if dot < 0 {
		return nil, fmt.Errorf("bad name %q", name)
	}
	pkg := s.pkgs[name[:dot]]
	if pkg == nil {
		return nil, fmt.Errorf("no package %q", name[:dot])
	}
	fn := pkg.Func(name[dot+1:])
	if fn == nil {
		return nil, fmt.Errorf("no func %q", name)
	}
	return fn, nil
}

func (s *server) fnID(fn *ssa.Function) int {
	if id, ok := s.fnIDs[fn]; ok {
		return id
	}
	id := len(s.fnTab)
	s.fnIDs[fn] = id
	s.fnTab = append(s.fnTab, fn)
	return id
}

func (s *server) glID(g *ssa.Global) int {
	if id, ok := s.glIDs[g]; ok {
		return id
	}
	id := len(s.glTab)
	s.glIDs[g] = id
	s.glTab = append(s.glTab, g)
	return id
}

func (s *server) typeID(t types.Type) int {
	if v := s.typeIDs.At(t); v != nil {
		return v.(int)
	}
	id := len(s.typeTab)
	s.typeIDs.Set(t, id)
	s.typeTab = append(s.typeTab, t)
	return id
}

func (s *server) typeJSON(id int) J {
	t := s.typeTab[id]
	r := J{"id": id, "s": t.String()}
	if n, ok := t.(*types.Named); ok {
		r["named"] = n.Obj().Name()
		if n.Obj().Pkg() != nil {
			r["npkg"] = n.Obj().Pkg().Path()
		}
	}
	if _, ok := t.(*types.Alias); ok {
		t = types.Unalias(t)
		if n, ok := t.(*types.Named); ok {
			r["named"] = n.Obj().Name()
			if n.Obj().Pkg() != nil {
				r["npkg"] = n.Obj().Pkg().Path()
			}
		}
	}
	switch u := t.Underlying().(type) {
	case *types.Basic:
		r["k"] = u.Name()
		if u.Kind() == types.UnsafePointer {
			r["k"] = "unsafeptr"
		}
		if u.Kind() == types.UntypedNil {
			r["k"] = "nil"
		}
	case *types.Struct:
		r["k"] = "struct"
		fs := make([]J, u.NumFields())
		for i := range fs {
			f := u.Field(i)
			fs[i] = J{"n": f.Name(), "t": s.typeID(f.Type()), "emb": f.Embedded()}
		}
		r["fields"] = fs
	case *types.Array:
		r["k"] = "array"
		r["len"] = u.Len()
		r["elem"] = s.typeID(u.Elem())
	case *types.Slice:
		r["k"] = "slice"
		r["elem"] = s.typeID(u.Elem())
	case *types.Pointer:
		r["k"] = "ptr"
		r["elem"] = s.typeID(u.Elem())
	case *types.Map:
		r["k"] = "map"
		r["key"] = s.typeID(u.Key())
		r["elem"] = s.typeID(u.Elem())
	case *types.Chan:
		r["k"] = "chan"
		r["elem"] = s.typeID(u.Elem())
	case *types.Signature:
		r["k"] = "func"
		r["nres"] = u.Results().Len()
		var rs []int
		for i := 0; i < u.Results().Len(); i++ {
			rs = append(rs, s.typeID(u.Results().At(i).Type()))
		}
		r["res"] = rs
	case *types.Interface:
		r["k"] = "iface"
		r["nmeth"] = u.NumMethods()
	case *types.Tuple:
		r["k"] = "tuple"
		ts := make([]int, u.Len())
		for i := range ts {
			ts[i] = s.typeID(u.At(i).Type())
		}
		r["tuple"] = ts
	default:
		r["k"] = fmt.Sprintf("?%T", u)
	}
	return r
}

func (s *server) pos(p token.Pos) string {
	if !p.IsValid() {
		return ""
	}
	q := s.fset.Position(p)
	f := q.Filename
	if i := strings.LastIndex(f, "/"); i >= 0 {
		if j := strings.LastIndex(f[:i], "/"); j >= 0 {
			f = f[j+1:]
		}
	}
	return fmt.Sprintf("%s:%d", f, q.Line)
}

func (s *server) funcJSON(fn *ssa.Function) J {
	if fn.Blocks == nil && fn.Pkg != nil {
		fn.Pkg.Build()
	}
	if fn.Blocks == nil && fn.Synthetic != "" && fn.Pkg == nil {
		// wrappers/instantiations are built on creation by MethodValue etc.
	}
	r := J{"id": s.fnIDs[fn], "name": fn.String(), "short": fn.Name(), "synthetic": fn.Synthetic, "pos": s.pos(fn.Pos())}
	if fn.Pkg != nil {
		r["pkg"] = fn.Pkg.Pkg.Path()
	} else if fn.Object() != nil && fn.Object().Pkg() != nil {
		r["pkg"] = fn.Object().Pkg().Path()
	} else if p := fn.Parent(); p != nil && p.Pkg != nil {
		r["pkg"] = p.Pkg.Pkg.Path()
	}
	sig := fn.Signature
	var res []int
	for i := 0; i < sig.Results().Len(); i++ {
		res = append(res, s.typeID(sig.Results().At(i).Type()))
	}
	r["res"] = res
	r["variadic"] = sig.Variadic()
	if fn.Blocks == nil {
		r["hasbody"] = false
		var ps []int
		if sig.Recv() != nil {
			ps = append(ps, s.typeID(sig.Recv().Type()))
		}
		for i := 0; i < sig.Params().Len(); i++ {
			ps = append(ps, s.typeID(sig.Params().At(i).Type()))
		}
		r["ptypes"] = ps
		return r
	}
	r["hasbody"] = true
	// number locals
	idx := map[ssa.Value]int{}
	n := 0
	var ptypes []int
	var pnames []string
	for _, p := range fn.Params {
		idx[p] = n
		n++
		ptypes = append(ptypes, s.typeID(p.Type()))
		pnames = append(pnames, p.Name())
	}
	r["ptypes"] = ptypes
	r["pnames"] = pnames
	r["nparams"] = len(fn.Params)
	for _, fv := range fn.FreeVars {
		idx[fv] = n
		n++
	}
	r["nfree"] = len(fn.FreeVars)
	for _, b := range fn.Blocks {
		for _, in := range b.Instrs {
			if v, ok := in.(ssa.Value); ok {
				idx[v] = n
				n++
			}
		}
	}
	r["nlocals"] = n
	val := func(v ssa.Value) interface{} {
		if v == nil {
			return nil
		}
		if i, ok := idx[v]; ok {
			return i
		}
		switch v := v.(type) {
		case *ssa.Const:
			return s.constJSON(v)
		case *ssa.Global:
			return J{"g": s.glID(v)}
		case *ssa.Function:
			return J{"f": s.fnID(v)}
		case *ssa.Builtin:
			return J{"b": v.Name()}
		}
		panic(fmt.Sprintf("unknown value %T %v in %s", v, v, fn))
	}
	vals := func(vs []ssa.Value) []interface{} {
		r := make([]interface{}, len(vs))
		for i, v := range vs {
			r[i] = val(v)
		}
		return r
	}
	blocks := make([][]J, len(fn.Blocks))
	for bi, b := range fn.Blocks {
		if b.Index != bi {
			panic("block index mismatch")
		}
		var ins []J
		for _, in := range b.Instrs {
			j := J{}
			if v, ok := in.(ssa.Value); ok {
				j["r"] = idx[v]
				if _, isRange := in.(*ssa.Range); !isRange {
					j["t"] = s.typeID(v.Type())
				}
			}
			switch in := in.(type) {
			case *ssa.DebugRef:
				continue
			case *ssa.Alloc:
				j["o"] = "Alloc"
				j["heap"] = in.Heap
				j["et"] = s.typeID(in.Type().Underlying().(*types.Pointer).Elem())
			case *ssa.BinOp:
				j["o"] = "BinOp"
				j["op"] = in.Op.String()
				j["x"] = val(in.X)
				j["y"] = val(in.Y)
				j["xt"] = s.typeID(in.X.Type())
				j["yt"] = s.typeID(in.Y.Type())
			case *ssa.UnOp:
				j["o"] = "UnOp"
				j["op"] = in.Op.String()
				j["x"] = val(in.X)
				j["commaok"] = in.CommaOk
				j["xt"] = s.typeID(in.X.Type())
			case *ssa.Call:
				j["o"] = "Call"
				s.callJSON(j, &in.Call, val, vals)
			case *ssa.Defer:
				j["o"] = "Defer"
				s.callJSON(j, &in.Call, val, vals)
			case *ssa.Go:
				j["o"] = "Go"
				s.callJSON(j, &in.Call, val, vals)
			case *ssa.ChangeInterface:
				j["o"] = "ChangeInterface"
				j["x"] = val(in.X)
			case *ssa.ChangeType:
				j["o"] = "ChangeType"
				j["x"] = val(in.X)
			case *ssa.Convert:
				j["o"] = "Convert"
				j["x"] = val(in.X)
				j["xt"] = s.typeID(in.X.Type())
			case *ssa.MultiConvert:
				j["o"] = "Convert"
				j["x"] = val(in.X)
				j["xt"] = s.typeID(in.X.Type())
			case *ssa.SliceToArrayPointer:
				j["o"] = "SliceToArrayPointer"
				j["x"] = val(in.X)
			case *ssa.Extract:
				j["o"] = "Extract"
				j["x"] = val(in.Tuple)
				j["i"] = in.Index
			case *ssa.Field:
				j["o"] = "Field"
				j["x"] = val(in.X)
				j["i"] = in.Field
			case *ssa.FieldAddr:
				j["o"] = "FieldAddr"
				j["x"] = val(in.X)
				j["i"] = in.Field
			case *ssa.Index:
				j["o"] = "Index"
				j["x"] = val(in.X)
				j["i"] = val(in.Index)
				j["xt"] = s.typeID(in.X.Type())
			case *ssa.IndexAddr:
				j["o"] = "IndexAddr"
				j["x"] = val(in.X)
				j["i"] = val(in.Index)
				j["xt"] = s.typeID(in.X.Type())
			case *ssa.Lookup:
				j["o"] = "Lookup"
				j["x"] = val(in.X)
				j["i"] = val(in.Index)
				j["commaok"] = in.CommaOk
				j["xt"] = s.typeID(in.X.Type())
			case *ssa.MakeClosure:
				j["o"] = "MakeClosure"
				j["fn"] = val(in.Fn)
				j["bind"] = vals(in.Bindings)
			case *ssa.MakeInterface:
				j["o"] = "MakeInterface"
				j["x"] = val(in.X)
				j["xt"] = s.typeID(in.X.Type())
			case *ssa.MakeMap:
				j["o"] = "MakeMap"
			case *ssa.MakeChan:
				j["o"] = "MakeChan"
				j["size"] = val(in.Size)
			case *ssa.MakeSlice:
				j["o"] = "MakeSlice"
				j["len"] = val(in.Len)
				j["cap"] = val(in.Cap)
			case *ssa.Next:
				j["o"] = "Next"
				j["x"] = val(in.Iter)
				j["isstr"] = in.IsString
			case *ssa.Range:
				j["o"] = "Range"
				j["x"] = val(in.X)
				j["xt"] = s.typeID(in.X.Type())
			case *ssa.Phi:
				j["o"] = "Phi"
				j["edges"] = vals(in.Edges)
			case *ssa.Slice:
				j["o"] = "Slice"
				j["x"] = val(in.X)
				j["lo"] = val(in.Low)
				j["hi"] = val(in.High)
				j["max"] = val(in.Max)
				j["xt"] = s.typeID(in.X.Type())
			case *ssa.TypeAssert:
				j["o"] = "TypeAssert"
				j["x"] = val(in.X)
				j["at"] = s.typeID(in.AssertedType)
				j["commaok"] = in.CommaOk
			case *ssa.Select:
				j["o"] = "Select"
				j["blocking"] = in.Blocking
				var sts []J
				for _, st := range in.States {
					sts = append(sts, J{"send": st.Dir == types.SendOnly, "ch": val(st.Chan), "v": val(st.Send)})
				}
				j["states"] = sts
			case *ssa.If:
				j["o"] = "If"
				j["x"] = val(in.Cond)
				j["s"] = []int{b.Succs[0].Index, b.Succs[1].Index}
			case *ssa.Jump:
				j["o"] = "Jump"
				j["s"] = b.Succs[0].Index
			case *ssa.Return:
				j["o"] = "Return"
				j["xs"] = vals(in.Results)
			case *ssa.Panic:
				j["o"] = "Panic"
				j["x"] = val(in.X)
			case *ssa.RunDefers:
				j["o"] = "RunDefers"
			case *ssa.Send:
				j["o"] = "Send"
				j["ch"] = val(in.Chan)
				j["x"] = val(in.X)
			case *ssa.Store:
				j["o"] = "Store"
				j["vt"] = s.typeID(in.Val.Type())
				j["a"] = val(in.Addr)
				j["x"] = val(in.Val)
			case *ssa.MapUpdate:
				j["o"] = "MapUpdate"
				j["kt"] = s.typeID(in.Map.Type().Underlying().(*types.Map).Key())
				j["m"] = val(in.Map)
				j["k"] = val(in.Key)
				j["x"] = val(in.Value)
			default:
				panic(fmt.Sprintf("unhandled instruction %T in %s", in, fn))
			}
			if p := in.Pos(); p.IsValid() {
				j["pos"] = s.pos(p)
			}
			ins = append(ins, j)
		}
		blocks[bi] = ins
	}
	r["blocks"] = blocks
	preds := make([][]int, len(fn.Blocks))
	for bi, b := range fn.Blocks {
		for _, p := range b.Preds {
			preds[bi] = append(preds[bi], p.Index)
		}
	}
	r["preds"] = preds
	if fn.Recover != nil {
		r["recover"] = fn.Recover.Index
	} else {
		r["recover"] = -1
	}
	// named results (needed for recover: result values are loaded from named result allocs)
	return r
}

func (s *server) callJSON(j J, c *ssa.CallCommon, val func(ssa.Value) interface{}, vals func([]ssa.Value) []interface{}) {
	j["args"] = vals(c.Args)
	if _, ok := c.Value.(*ssa.Builtin); ok {
		var ats []int
		for _, a := range c.Args {
			ats = append(ats, s.typeID(a.Type()))
		}
		j["argt"] = ats
	}
	if c.IsInvoke() {
		j["invoke"] = true
		j["x"] = val(c.Value)
		j["mname"] = c.Method.Name()
		if c.Method.Pkg() != nil {
			j["mpkg"] = c.Method.Pkg().Path()
		}
		j["it"] = s.typeID(c.Value.Type())
		j["mfull"] = c.Method.FullName()
		sig := c.Method.Type().(*types.Signature)
		var rs []int
		for i := 0; i < sig.Results().Len(); i++ {
			rs = append(rs, s.typeID(sig.Results().At(i).Type()))
		}
		j["res"] = rs
	} else {
		j["fn"] = val(c.Value)
		sig := c.Signature()
		var rs []int
		for i := 0; i < sig.Results().Len(); i++ {
			rs = append(rs, s.typeID(sig.Results().At(i).Type()))
		}
		j["res"] = rs
	}
}

func (s *server) constJSON(c *ssa.Const) J {
	r := J{"t": s.typeID(c.Type())}
	if c.Value == nil {
		r["c"] = nil
		return r
	}
	switch c.Value.Kind() {
	case constant.Bool:
		r["c"] = constant.BoolVal(c.Value)
	case constant.String:
		r["c"] = "s"
		r["sx"] = hex.EncodeToString([]byte(constant.StringVal(c.Value)))
	case constant.Int:
		r["c"] = "i"
		r["iv"] = c.Value.ExactString()
	case constant.Float:
		if b, ok := c.Type().Underlying().(*types.Basic); ok && b.Info()&types.IsInteger != 0 {
			r["c"] = "i"
			r["iv"] = constant.ToInt(c.Value).ExactString()
		} else {
			f, _ := constant.Float64Val(c.Value)
			r["c"] = "f"
			r["fv"] = f
		}
	default:
		r["c"] = "?"
	}
	return r
}

// initStores: for a global, find the init function(s) of its package and
// return the function id of init so the executor can evaluate the slice itself.
func (s *server) initStores(g *ssa.Global) J {
	init := g.Pkg.Func("init")
	if init == nil {
		return J{"f": -1}
	}
	return J{"f": s.fnID(init)}
}

// callers: static call-graph query over all packages whose path has the given
// prefix: which functions contain a static call to (or an invoke of a method
// named like) the target. Test files are not loaded, so only non-test callers
// are reported.
func (s *server) callers(req J) J {
	prefix := str(req["prefix"])
	target := str(req["target"])   // full name as fn.String() for static calls
	mname := str(req["method"])    // method name for invoke-mode matches
	var out []string
	var paths []string
	for p := range s.pkgs {
		if strings.HasPrefix(p, prefix) {
			paths = append(paths, p)
		}
	}
	sort.Strings(paths)
	for _, p := range paths {
		pkg := s.pkgs[p]
		pkg.Build()
		var fns []*ssa.Function
		for _, m := range pkg.Members {
			switch m := m.(type) {
			case *ssa.Function:
				fns = append(fns, m)
			case *ssa.Type:
				for _, T := range []types.Type{m.Type(), types.NewPointer(m.Type())} {
					ms := s.prog.MethodSets.MethodSet(T)
					for i := 0; i < ms.Len(); i++ {
						if f := s.prog.MethodValue(ms.At(i)); f != nil && f.Synthetic == "" {
							fns = append(fns, f)
						}
					}
				}
			}
		}
		seen := map[*ssa.Function]bool{}
		var visit func(f *ssa.Function)
		visit = func(f *ssa.Function) {
			if seen[f] || f.Blocks == nil {
				return
			}
			seen[f] = true
			for _, af := range f.AnonFuncs {
				visit(af)
			}
			for _, b := range f.Blocks {
				for _, in := range b.Instrs {
					ci, ok := in.(ssa.CallInstruction)
					if !ok {
						// method values / function references
						continue
					}
					c := ci.Common()
					if c.IsInvoke() {
						if mname != "" && c.Method.Name() == mname {
							out = append(out, f.String()+" [invoke "+c.Method.FullName()+"]")
						}
					} else if callee := c.StaticCallee(); callee != nil {
						if callee.String() == target {
							out = append(out, f.String())
						}
					}
				}
			}
		}
		for _, f := range fns {
			if f.Pkg == pkg {
				visit(f)
			}
		}
	}
	sort.Strings(out)
	return J{"callers": out}
}
