// stubgen rewrites, for native replay, the bodies of stubbed functions so that
// they call a hook (set by the replay test to the harness's Go stub) when one is
// installed and run the original body otherwise. Output: overlay entries.
package main

import (
	"bytes"
	"encoding/json"
	"fmt"
	"go/ast"
	"go/parser"
	"go/printer"
	"go/token"
	"os"
	"path/filepath"
	"strings"

	"golang.org/x/tools/go/ast/astutil"
)

type stub struct {
	Target string `json:"target"`
	Index  int    `json:"index"`
}

type input struct {
	Repo   string `json:"repo"`
	Module string `json:"module"`
	Out    string `json:"out"`
	Stubs  []stub `json:"stubs"`
}

const hooksPkg = "zzverifhooks"

func main() {
	var in input
	b, err := os.ReadFile(os.Args[1])
	if err != nil {
		fatal(err)
	}
	if err := json.Unmarshal(b, &in); err != nil {
		fatal(err)
	}
	overlay := map[string]string{}
	// group by file
	type edit struct {
		st   stub
		recv string
		ptr  bool
		name string
	}
	byDir := map[string][]edit{}
	for _, s := range in.Stubs {
		t := s.Target
		var e edit
		e.st = s
		var pkgpath string
		if strings.HasPrefix(t, "(") {
			end := strings.LastIndex(t, ").")
			recv := t[1:end]
			e.name = t[end+2:]
			if strings.HasPrefix(recv, "*") {
				e.ptr = true
				recv = recv[1:]
			}
			dot := strings.LastIndex(recv, ".")
			pkgpath, e.recv = recv[:dot], recv[dot+1:]
		} else {
			dot := strings.LastIndex(t, ".")
			pkgpath, e.name = t[:dot], t[dot+1:]
		}
		if !strings.HasPrefix(pkgpath, in.Module) {
			fatal(fmt.Errorf("stub target outside module: %s", t))
		}
		dir := filepath.Join(in.Repo, strings.TrimPrefix(strings.TrimPrefix(pkgpath, in.Module), "/"))
		byDir[dir] = append(byDir[dir], e)
	}
	for dir, edits := range byDir {
		fset := token.NewFileSet()
		ents, err := os.ReadDir(dir)
		if err != nil {
			fatal(err)
		}
		files := map[string]*ast.File{}
		for _, en := range ents {
			n := en.Name()
			if !strings.HasSuffix(n, ".go") || strings.HasSuffix(n, "_test.go") {
				continue
			}
			f, err := parser.ParseFile(fset, filepath.Join(dir, n), nil, parser.ParseComments)
			if err != nil {
				fatal(err)
			}
			files[filepath.Join(dir, n)] = f
		}
		changed := map[string]bool{}
		for _, e := range edits {
			found := false
			for path, f := range files {
				for _, d := range f.Decls {
					fd, ok := d.(*ast.FuncDecl)
					if !ok || fd.Name.Name != e.name || fd.Body == nil {
						continue
					}
					if e.recv == "" {
						if fd.Recv != nil {
							continue
						}
					} else {
						if fd.Recv == nil || len(fd.Recv.List) != 1 {
							continue
						}
						rt := fd.Recv.List[0].Type
						isPtr := false
						if se, ok := rt.(*ast.StarExpr); ok {
							isPtr = true
							rt = se.X
						}
						id, ok := rt.(*ast.Ident)
						if !ok || id.Name != e.recv || isPtr != e.ptr {
							continue
						}
					}
					rewrite(fset, fd, e.st.Index)
					astutil.AddImport(fset, f, in.Module+"/"+hooksPkg)
					changed[path] = true
					found = true
				}
			}
			if !found {
				fatal(fmt.Errorf("stub target not found: %s", e.st.Target))
			}
		}
		for path := range changed {
			var buf bytes.Buffer
			if err := printer.Fprint(&buf, fset, files[path]); err != nil {
				fatal(err)
			}
			rel, _ := filepath.Rel(in.Repo, path)
			out := filepath.Join(in.Out, "stubbed_"+strings.ReplaceAll(rel, "/", "_"))
			if err := os.WriteFile(out, buf.Bytes(), 0644); err != nil {
				fatal(err)
			}
			overlay[path] = out
		}
	}
	hp := filepath.Join(in.Out, "zzverifhooks.go")
	os.WriteFile(hp, []byte("package "+hooksPkg+"\n\n// H holds the stubs installed by the replay test\nvar H [256]interface{}\n"), 0644)
	overlay[filepath.Join(in.Repo, hooksPkg, "hooks.go")] = hp
	ob, _ := json.Marshal(overlay)
	fmt.Println(string(ob))
}

func rewrite(fset *token.FileSet, fd *ast.FuncDecl, idx int) {
	// name all parameters
	n := 0
	var argExprs []string
	var typeParts []string
	exprStr := func(e ast.Expr) string {
		var b bytes.Buffer
		printer.Fprint(&b, fset, e)
		return b.String()
	}
	if fd.Recv != nil {
		f := fd.Recv.List[0]
		if len(f.Names) == 0 || f.Names[0].Name == "_" {
			f.Names = []*ast.Ident{ast.NewIdent("zzrecv")}
		}
		argExprs = append(argExprs, f.Names[0].Name)
		typeParts = append(typeParts, exprStr(f.Type))
	}
	for _, f := range fd.Type.Params.List {
		if len(f.Names) == 0 {
			f.Names = []*ast.Ident{ast.NewIdent(fmt.Sprintf("zzp%d", n))}
			n++
		}
		for i, nm := range f.Names {
			if nm.Name == "_" {
				f.Names[i] = ast.NewIdent(fmt.Sprintf("zzp%d", n))
				n++
			}
			a := f.Names[i].Name
			ts := exprStr(f.Type)
			if _, ok := f.Type.(*ast.Ellipsis); ok {
				a += "..."
			}
			argExprs = append(argExprs, a)
			typeParts = append(typeParts, ts)
		}
	}
	res := ""
	hasRes := fd.Type.Results != nil && len(fd.Type.Results.List) > 0
	if hasRes {
		var rs []string
		for _, f := range fd.Type.Results.List {
			k := len(f.Names)
			if k == 0 {
				k = 1
			}
			for i := 0; i < k; i++ {
				rs = append(rs, exprStr(f.Type))
			}
		}
		res = " (" + strings.Join(rs, ", ") + ")"
	}
	ftype := "func(" + strings.Join(typeParts, ", ") + ")" + res
	call := fmt.Sprintf("zzf.(%s)(%s)", ftype, strings.Join(argExprs, ", "))
	src := "package p\nfunc _() {\nif zzf := " + hooksPkg + ".H[" + fmt.Sprint(idx) + "]; zzf != nil {\n"
	if hasRes {
		src += "return " + call + "\n"
	} else {
		src += call + "\nreturn\n"
	}
	src += "}\n}\n"
	f, err := parser.ParseFile(token.NewFileSet(), "x.go", src, 0)
	if err != nil {
		fatal(fmt.Errorf("generated stub prologue does not parse: %v\n%s", err, src))
	}
	stmt := f.Decls[0].(*ast.FuncDecl).Body.List[0]
	clearPos(stmt)
	fd.Body.List = append([]ast.Stmt{stmt}, fd.Body.List...)
}

func clearPos(n ast.Node) {
	// positions from another file set would confuse the printer; zero them
	ast.Inspect(n, func(x ast.Node) bool {
		switch v := x.(type) {
		case *ast.Ident:
			v.NamePos = token.NoPos
		case *ast.BasicLit:
			v.ValuePos = token.NoPos
		case *ast.IfStmt:
			v.If = token.NoPos
		case *ast.BlockStmt:
			v.Lbrace, v.Rbrace = token.NoPos, token.NoPos
		case *ast.ReturnStmt:
			v.Return = token.NoPos
		case *ast.CallExpr:
			v.Lparen, v.Rparen, v.Ellipsis = token.NoPos, token.NoPos, ellipsisPos(v)
		case *ast.IndexExpr:
			v.Lbrack, v.Rbrack = token.NoPos, token.NoPos
		case *ast.TypeAssertExpr:
			v.Lparen, v.Rparen = token.NoPos, token.NoPos
		case *ast.FuncType:
			v.Func = token.NoPos
		case *ast.FieldList:
			v.Opening, v.Closing = token.NoPos, token.NoPos
		case *ast.AssignStmt:
			v.TokPos = token.NoPos
		case *ast.BinaryExpr:
			v.OpPos = token.NoPos
		case *ast.StarExpr:
			v.Star = token.NoPos
		case *ast.ArrayType:
			v.Lbrack = token.NoPos
		case *ast.Ellipsis:
			v.Ellipsis = token.NoPos
		case *ast.SelectorExpr:
		case *ast.MapType:
			v.Map = token.NoPos
		case *ast.InterfaceType:
			v.Interface = token.NoPos
		case *ast.ParenExpr:
			v.Lparen, v.Rparen = token.NoPos, token.NoPos
		}
		return true
	})
}

func ellipsisPos(c *ast.CallExpr) token.Pos {
	if c.Ellipsis.IsValid() {
		return token.Pos(1)
	}
	return token.NoPos
}

func fatal(err error) {
	fmt.Fprintln(os.Stderr, "stubgen:", err)
	os.Exit(2)
}
