//verif:pkg state
package state

import (
	"math/big"

	"github.com/lianxiangcloud/linkchain/libs/common"
	dbm "github.com/lianxiangcloud/linkchain/libs/db"
	"github.com/lianxiangcloud/linkchain/libs/trie"
)

// C09 (copies, second part) — a copy taken at ANY point of a block's execution observes exactly what
// the original observes at that point: after changes that are still in the journal, after changes that
// an IntermediateRoot has already flushed into the (uncommitted) tries, and after both.
//
// The database mock here is faithful about what is shared: a storage trie opened from the database
// shows only what was committed to it, never what another live object has merely flushed; account
// records written to the main trie decode back to the account they encode (an id into a side table
// stands for the byte encoding, which is C11's subject).

//verif:filestub github.com/lianxiangcloud/linkchain/libs/ser.EncodeToBytes => stub_c09f_encode
//verif:filestub github.com/lianxiangcloud/linkchain/libs/ser.DecodeBytes => stub_c09f_decode
//verif:filestub github.com/lianxiangcloud/linkchain/libs/crypto.Keccak256Hash => stub_c09_keccakhash
//verif:filestub github.com/lianxiangcloud/linkchain/libs/crypto.Keccak256 => stub_c09_keccak
//verif:filestub (github.com/lianxiangcloud/linkchain/libs/common.Address).Hex => stub_c09_hex

var c09fAccts []Account

func stub_c09f_encode(val interface{}) ([]byte, error) {
	so, ok := val.(*stateObject)
	if !ok {
		return stub_c09_encode(val)
	}
	a := so.data
	a.Balance = new(big.Int).Set(so.data.Balance)
	a.Tokens = map[common.Address]*big.Int{}
	for k, v := range so.data.Tokens {
		a.Tokens[k] = new(big.Int).Set(v)
	}
	c09fAccts = append(c09fAccts, a)
	return []byte{0xC1, byte(len(c09fAccts) - 1)}, nil
}

func stub_c09f_decode(b []byte, val interface{}) error {
	p := val.(*Account)
	a := c09fAccts[b[1]]
	*p = a
	p.Balance = new(big.Int).Set(a.Balance)
	p.Tokens = map[common.Address]*big.Int{}
	for k, v := range a.Tokens {
		p.Tokens[k] = new(big.Int).Set(v)
	}
	return nil
}

type c09fTrie struct {
	m     map[string][]byte
	db    *c09fDB
	owner common.Hash
}

func (t *c09fTrie) TryGet(key []byte) ([]byte, error) { return t.m[string(key)], nil }
func (t *c09fTrie) TryUpdate(key, value []byte) error { t.m[string(key)] = value; return nil }
func (t *c09fTrie) TryDelete(key []byte) error        { delete(t.m, string(key)); return nil }
func (t *c09fTrie) Hash() common.Hash {
	// the root identifies the content: here, the number of entries plus one representative byte
	h := common.Hash{0x77, byte(len(t.m))}
	for _, v := range t.m {
		if len(v) > 0 {
			h[2] ^= v[len(v)-1]
		}
	}
	return h
}
func (t *c09fTrie) GetKey(k []byte) []byte                                        { return k }
func (t *c09fTrie) NodeIterator(start []byte) trie.NodeIterator                   { return nil }
func (t *c09fTrie) Prove(key []byte, fromLevel uint, proofDb dbm.Putter) error    { return nil }
func (t *c09fTrie) Commit(onleaf trie.LeafCallback, height uint64) (common.Hash, error) {
	cp := map[string][]byte{}
	for k, v := range t.m {
		cp[k] = v
	}
	t.db.committed[t.owner] = cp
	return t.Hash(), nil
}

type c09fDB struct {
	committed map[common.Hash]map[string][]byte // owner (zero = the account trie) -> committed content
	code      map[common.Hash][]byte
}

func c09fNewDB() *c09fDB {
	return &c09fDB{committed: map[common.Hash]map[string][]byte{}, code: map[common.Hash][]byte{}}
}
func (d *c09fDB) open(owner common.Hash) *c09fTrie {
	t := &c09fTrie{m: map[string][]byte{}, db: d, owner: owner}
	for k, v := range d.committed[owner] {
		t.m[k] = v
	}
	return t
}
func (d *c09fDB) OpenTrie(root common.Hash) (Trie, error)                  { return d.open(common.Hash{}), nil }
func (d *c09fDB) OpenStorageTrie(addrHash, root common.Hash) (Trie, error) { return d.open(addrHash), nil }
func (d *c09fDB) CopyTrie(t Trie) Trie {
	src := t.(*c09fTrie)
	cp := &c09fTrie{m: map[string][]byte{}, db: d, owner: src.owner}
	for k, v := range src.m {
		cp.m[k] = v
	}
	return cp
}
func (d *c09fDB) ContractCode(addrHash, codeHash common.Hash) ([]byte, error) { return d.code[codeHash], nil }
func (d *c09fDB) ContractCodeSize(addrHash, codeHash common.Hash) (int, error) {
	return len(d.code[codeHash]), nil
}
func (d *c09fDB) TrieDB() TrieDB { return nil }

//verif:opt unwind=16 budget_s=600 split=48
func H_C09_copy_at_any_point_observes_what_the_original_observes() {
	c09fAccts = nil
	s, err := New(common.Hash{}, c09fNewDB())
	if err != nil {
		panic(err)
	}
	// phase 1: a change to account A (balance, nonce, slot, code, token) ...
	c09Mutate(s, 1+verifCase(5))
	if verifNondetBool() {
		c09Mutate(s, 3) // ... and possibly a storage slot as well
	}
	// ... which is flushed into the tries (as at the end of a transaction) or still journalled
	flushed := verifNondetBool()
	if flushed {
		s.IntermediateRoot(false)
	}
	// phase 2: possibly one more change, to A or to another account
	if verifNondetBool() {
		c09Mutate(s, verifCase(c09Mutators))
	}
	cp := s.Copy()
	verifAssert(c09Same(c09Observe(s), c09Observe(cp)), "copy-observes-what-the-original-observes")
	cp2 := cp.Copy()
	verifAssert(c09Same(c09Observe(s), c09Observe(cp2)), "copy-of-a-copy-observes-what-the-original-observes")
	verifReach("copied")
	// the copy moves on - a storage write that it flushes into its tries - and neither the original nor
	// the sibling copy moves with it (flushing moves the slot into the object's committed-storage
	// cache, which a copy must not share with its source)
	obsS, obsC2 := c09Observe(s), c09Observe(cp2)
	c09Mutate(cp, 3)
	cp.IntermediateRoot(false)
	verifAssert(c09Same(obsS, c09Observe(s)) && c09Same(obsC2, c09Observe(cp2)), "a-copys-flushed-write-stays-in-the-copy")
	// and the other way round
	obsC := c09Observe(cp)
	c09Mutate(s, 3)
	s.IntermediateRoot(false)
	verifAssert(c09Same(obsC, c09Observe(cp)) && c09Same(obsC2, c09Observe(cp2)), "the-originals-flushed-write-stays-in-the-original")
}
