//verif:pkg state
package state

import (
	"bytes"
	"math/big"

	"github.com/lianxiangcloud/linkchain/libs/common"
	dbm "github.com/lianxiangcloud/linkchain/libs/db"
	"github.com/lianxiangcloud/linkchain/libs/trie"
	"github.com/lianxiangcloud/linkchain/types"
)

// C09 — snapshots revert every observable exactly; copies of the state are independent.
// The real StateDB, stateObject and journal are executed; the backing account/storage tries are a
// harness model (byte maps), the account/value encoder is a hand-written RLP string encoder (the real
// ser.Split parses it back), Keccak-256 is a collision-free uninterpreted function.

//verif:filestub github.com/lianxiangcloud/linkchain/libs/ser.EncodeToBytes => stub_c09_encode
//verif:filestub github.com/lianxiangcloud/linkchain/libs/crypto.Keccak256Hash => stub_c09_keccakhash
//verif:filestub github.com/lianxiangcloud/linkchain/libs/crypto.Keccak256 => stub_c09_keccak
//verif:filestub (github.com/lianxiangcloud/linkchain/libs/common.Address).Hex => stub_c09_hex

func stub_c09_encode(val interface{}) ([]byte, error) {
	b, ok := val.([]byte)
	if !ok {
		return []byte{0xC0}, nil // an account object: its encoding is never read back in these harnesses
	}
	if len(b) == 1 && b[0] < 0x80 {
		return []byte{b[0]}, nil
	}
	return append([]byte{0x80 + byte(len(b))}, b...), nil // values are shorter than 56 bytes here
}
func stub_c09_keccakhash(data ...[]byte) (h common.Hash) {
	var all []byte
	for _, d := range data {
		all = append(all, d...)
	}
	copy(h[:], verifHashBytes("keccak", 32, all))
	return
}
func stub_c09_keccak(data ...[]byte) []byte {
	var all []byte
	for _, d := range data {
		all = append(all, d...)
	}
	return verifHashBytes("keccak", 32, all)
}

func stub_c09_hex(a common.Address) string { return "0xaddr" } // only used in log lines

type c09Trie struct{ m map[string][]byte }

func (t *c09Trie) TryGet(key []byte) ([]byte, error)   { return t.m[string(key)], nil }
func (t *c09Trie) TryUpdate(key, value []byte) error   { t.m[string(key)] = value; return nil }
func (t *c09Trie) TryDelete(key []byte) error          { delete(t.m, string(key)); return nil }
func (t *c09Trie) Hash() common.Hash                   { return common.Hash{} }
func (t *c09Trie) GetKey(k []byte) []byte              { return k }
func (t *c09Trie) NodeIterator(start []byte) trie.NodeIterator { return nil }
func (t *c09Trie) Prove(key []byte, fromLevel uint, proofDb dbm.Putter) error { return nil }
func (t *c09Trie) Commit(onleaf trie.LeafCallback, height uint64) (common.Hash, error) {
	return common.Hash{}, nil
}

type c09DB struct {
	main    *c09Trie
	storage map[common.Hash]*c09Trie
}

func c09NewDB() *c09DB {
	return &c09DB{main: &c09Trie{m: map[string][]byte{}}, storage: map[common.Hash]*c09Trie{}}
}
func (d *c09DB) OpenTrie(root common.Hash) (Trie, error) { return d.main, nil }
func (d *c09DB) OpenStorageTrie(addrHash, root common.Hash) (Trie, error) {
	t := d.storage[addrHash]
	if t == nil {
		t = &c09Trie{m: map[string][]byte{}}
		d.storage[addrHash] = t
	}
	return t, nil
}
func (d *c09DB) CopyTrie(t Trie) Trie {
	src := t.(*c09Trie)
	cp := &c09Trie{m: map[string][]byte{}}
	for k, v := range src.m {
		cp.m[k] = v
	}
	return cp
}
func (d *c09DB) ContractCode(addrHash, codeHash common.Hash) ([]byte, error) { return nil, nil }
func (d *c09DB) ContractCodeSize(addrHash, codeHash common.Hash) (int, error) { return 0, nil }
func (d *c09DB) TrieDB() TrieDB                                              { return nil }

var (
	c09A   = common.Address{0xA1}
	c09B   = common.Address{0xB2}
	c09Tok = common.Address{0x70}
	c09Key = common.Hash{0x01}
)

func c09Amount() *big.Int { return big.NewInt(int64(verifNondetUint8())) }

type c09Obs struct {
	exist, suicided      bool
	balance, token       int64
	nonce                uint64
	code, slot           []byte
	refund               uint64
	logs, ntokens        int
	existB               bool
	balanceB             int64
}

func c09Observe(s *StateDB) c09Obs {
	return c09Obs{
		exist: s.Exist(c09A), suicided: s.HasSuicided(c09A),
		balance: s.GetBalance(c09A).Int64(), token: s.GetTokenBalance(c09A, c09Tok).Int64(),
		nonce: s.GetNonce(c09A), code: s.GetCode(c09A), slot: s.GetState(c09A, c09Key),
		refund: s.GetRefund(), logs: len(s.Logs()), ntokens: len(s.GetTokenBalances(c09A)),
		existB: s.Exist(c09B), balanceB: s.GetBalance(c09B).Int64(),
	}
}

func c09Same(a, b c09Obs) bool {
	return a.exist == b.exist && a.suicided == b.suicided && a.balance == b.balance && a.token == b.token &&
		a.nonce == b.nonce && bytes.Equal(a.code, b.code) && bytes.Equal(a.slot, b.slot) && a.refund == b.refund &&
		a.logs == b.logs && a.existB == b.existB && a.balanceB == b.balanceB
}

// c09Pre builds an arbitrary reachable pre-state of account A (shape chosen by sel).
func c09Pre(s *StateDB, sel int) {
	if sel%2 == 1 {
		s.SetBalance(c09A, c09Amount())
		s.SetNonce(c09A, uint64(verifNondetUint8()))
	}
	switch (sel / 2) % 3 {
	case 1: // a slot written in this transaction
		s.SetState(c09A, c09Key, verifNondetBytes(1))
	case 2: // a slot with a flushed (committed) value, then cleared or rewritten in this transaction
		v := verifNondetBytes(1)
		verifAssume(v[0] != 0)
		s.SetState(c09A, c09Key, v)
		s.IntermediateRoot(false)
		if verifNondetBool() {
			s.SetState(c09A, c09Key, nil)
		} else {
			s.SetState(c09A, c09Key, verifNondetBytes(1))
		}
	}
	if (sel/6)%2 == 1 {
		s.AddTokenBalance(c09A, c09Tok, c09Amount())
	}
}

func c09Mutate(s *StateDB, kind int) {
	switch kind {
	case 0:
		s.AddBalance(c09A, c09Amount())
	case 1:
		s.SetBalance(c09A, c09Amount())
	case 2:
		s.SetNonce(c09A, uint64(verifNondetUint8()))
	case 3:
		s.SetState(c09A, c09Key, verifNondetBytes(verifCase(2)))
	case 4:
		s.SetCode(c09A, verifNondetBytes(2))
	case 5:
		s.AddTokenBalance(c09A, c09Tok, c09Amount())
	case 6:
		s.SetTokenBalance(c09A, c09Tok, c09Amount())
	case 7:
		s.Suicide(c09A)
	case 8:
		s.CreateAccount(c09A)
	case 9:
		s.AddRefund(uint64(verifNondetUint8()))
	case 10:
		s.AddLog(&types.Log{Address: c09A})
	case 11:
		s.AddBalance(c09B, c09Amount()) // touches another account
	}
}

const c09Mutators = 12

//verif:opt unwind=16 budget_s=500 split=144
func H_C09_revert_restores_every_observable() {
	sel := verifCase(12 * c09Mutators)
	s, err := New(common.Hash{}, c09NewDB())
	if err != nil {
		panic(err)
	}
	c09Pre(s, sel%12)
	before := c09Observe(s)
	id := s.Snapshot()
	c09Mutate(s, sel/12)
	if verifNondetBool() {
		// a nested snapshot that is itself reverted, then one more change
		inner := s.Snapshot()
		c09Mutate(s, verifCase(c09Mutators))
		s.RevertToSnapshot(inner)
		if verifThorough() {
			c09Mutate(s, verifCase(c09Mutators))
		}
	}
	s.RevertToSnapshot(id)
	verifReach("reverted")
	after := c09Observe(s)
	verifAssert(c09Same(before, after), "revert-restores-every-observable")
	verifAssert(before.ntokens == after.ntokens, "revert-restores-the-token-list")
}

//verif:opt unwind=16 budget_s=500 split=144
func H_C09_copies_are_independent() {
	sel := verifCase(12 * c09Mutators)
	s, err := New(common.Hash{}, c09NewDB())
	if err != nil {
		panic(err)
	}
	pre := sel % 12
	if !verifThorough() && (pre/2)%3 == 2 {
		pre -= 2 // quick: the flushed-slot pre-state is only used by the revert harness
	}
	c09Pre(s, pre)
	cp := s.Copy()
	cp2 := cp.Copy()
	obsS, obsC, obsC2 := c09Observe(s), c09Observe(cp), c09Observe(cp2)
	verifAssert(c09Same(obsS, obsC) && c09Same(obsC, obsC2), "copy-starts-equal")
	switch verifCase(3) {
	case 0:
		c09Mutate(s, sel/12)
		verifAssert(c09Same(obsC, c09Observe(cp)) && c09Same(obsC2, c09Observe(cp2)), "mutating-the-original-leaves-copies")
	case 1:
		c09Mutate(cp, sel/12)
		verifAssert(c09Same(obsS, c09Observe(s)) && c09Same(obsC2, c09Observe(cp2)), "mutating-a-copy-leaves-original-and-sibling")
	case 2:
		c09Mutate(cp2, sel/12)
		verifAssert(c09Same(obsS, c09Observe(s)) && c09Same(obsC, c09Observe(cp)), "mutating-a-copy-of-a-copy-leaves-the-others")
	}
	verifReach("mutated")
}

// Snapshot ids stay valid whatever was reverted in between: an outer snapshot stays live while one, two
// or three inner snapshots are taken and reverted ONE AFTER THE OTHER (the ids handed out keep growing,
// so the stack of live revisions gets gaps: [0,2], [0,3]); each inner revert restores what the state
// showed when that inner snapshot was taken, and the outer revert restores the original - no revert of
// a live snapshot fails.
//verif:opt unwind=16 budget_s=500
func H_C09_snapshot_ids_stay_valid_after_inner_reverts() {
	s, err := New(common.Hash{}, c09NewDB())
	if err != nil {
		panic(err)
	}
	c09Pre(s, verifCase(2))
	before := c09Observe(s)
	outer := s.Snapshot()
	c09Mutate(s, 0) // which changes are made is the other harnesses' business: here the ids are
	mid := c09Observe(s)
	rounds := 1 + verifCase(3)
	for r := 0; r < rounds; r++ {
		inner := s.Snapshot()
		c09Mutate(s, verifCase(2))
		s.RevertToSnapshot(inner)
		verifAssert(c09Same(mid, c09Observe(s)), "inner-revert-restores-what-the-inner-snapshot-saw")
	}
	s.RevertToSnapshot(outer)
	verifReach("all-reverted")
	verifAssert(c09Same(before, c09Observe(s)), "outer-revert-restores-the-original-after-inner-reverts")
}
