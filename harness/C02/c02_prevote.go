//verif:pkg consensus
package consensus

import (
	"encoding/binary"
	"time"

	cfg "github.com/lianxiangcloud/linkchain/config"
	cstypes "github.com/lianxiangcloud/linkchain/consensus/types"
	"github.com/lianxiangcloud/linkchain/libs/common"
	"github.com/lianxiangcloud/linkchain/libs/crypto"
	dbm "github.com/lianxiangcloud/linkchain/libs/db"
	"github.com/lianxiangcloud/linkchain/libs/log"
	"github.com/lianxiangcloud/linkchain/types"
)

// C02 — a correct validator prevotes a proposed block only if it passes full validation against the
// node's chain status. The real defaultDoPrevote, checkBlockEvidence, checkFaultValEvidence,
// checkEvidenceAge, validateBlock, VerifyFaultValEvidence, Block.ValidateBasic, Commit.ValidateBasic
// and ValidatorSet.VerifyCommit are executed; the block's header, previous commit and evidence are
// arbitrary. The oracle is a reference predicate written from the property text, not validateBlock.
//
// Environment: signAddVote records the vote; the application's CheckBlock is an arbitrary boolean
// ("application-level execution stays valid" or not); content hashes (commit, data, evidence,
// parameters, validator set) are fixed values of the harness objects; signatures are an
// uninterpreted predicate.

//verif:noop (*github.com/lianxiangcloud/linkchain/types.EventBus).Publish
//verif:noopiface github.com/lianxiangcloud/linkchain/libs/events.EventSwitch
//verif:filestub (*github.com/lianxiangcloud/linkchain/consensus.ConsensusState).signAddVote => stub_c02_signaddvote
//verif:filestub (*github.com/lianxiangcloud/linkchain/types.Block).Hash => stub_c02_blockhash
//verif:filestub (*github.com/lianxiangcloud/linkchain/types.Commit).Hash => stub_c02_commithash
//verif:filestub (*github.com/lianxiangcloud/linkchain/types.Data).Hash => stub_c02_datahash
//verif:filestub (*github.com/lianxiangcloud/linkchain/types.EvidenceData).Hash => stub_c02_evhash
//verif:filestub (*github.com/lianxiangcloud/linkchain/types.ConsensusParams).Hash => stub_c02_paramshash
//verif:filestub (*github.com/lianxiangcloud/linkchain/types.ValidatorSet).Hash => stub_c02_valhash
//verif:filestub github.com/lianxiangcloud/linkchain/libs/ser.MarshalJSON => stub_c02_marshaljson
//verif:filestub github.com/lianxiangcloud/linkchain/types.CanonicalTime => stub_c02_ctime
//verif:filestub (github.com/lianxiangcloud/linkchain/types.BlockID).Key => stub_c02_blockkey
//verif:filestub (github.com/lianxiangcloud/linkchain/libs/crypto.PubKeyEd25519).VerifyBytes => stub_c02_verify
//verif:filestub (github.com/lianxiangcloud/linkchain/libs/crypto.PubKeyEd25519).Address => stub_c02_address
//verif:filestub (github.com/lianxiangcloud/linkchain/libs/common.HexBytes).String => stub_c02_hexstring

var (
	c02VoteType  byte
	c02VoteHash  []byte
	c02VoteCount int
)

func stub_c02_signaddvote(cs *ConsensusState, type_ byte, hash []byte, header types.PartSetHeader) *types.Vote {
	c02VoteType, c02VoteHash = type_, hash
	c02VoteCount++
	return nil
}
func stub_c02_blockhash(b *types.Block) common.Hash          { return common.Hash{0xBB} }
func stub_c02_commithash(c *types.Commit) common.Hash        { return common.Hash{0xC0} }
func stub_c02_datahash(d *types.Data) common.Hash            { return common.Hash{0xDA} }
func stub_c02_evhash(d *types.EvidenceData) common.Hash      { return common.Hash{0xE0} }
func stub_c02_paramshash(p *types.ConsensusParams) []byte    { h := common.Hash{0xA0}; return h[:] }
func stub_c02_valhash(v *types.ValidatorSet) []byte          { h := common.Hash{0x5E, byte(len(v.Validators))}; return h[:] }
func stub_c02_marshaljson(o interface{}) ([]byte, error)     { return verifHashBytes("json", 32, o), nil }
func stub_c02_ctime(t time.Time) string                      { return "T" }
func stub_c02_hexstring(b common.HexBytes) string            { return string(b) }
func stub_c02_blockkey(b types.BlockID) string {
	var tot [8]byte
	binary.BigEndian.PutUint64(tot[:], uint64(b.PartsHeader.Total))
	return string(b.Hash[:]) + string(tot[:]) + string(b.PartsHeader.Hash)
}
func stub_c02_verify(pk crypto.PubKeyEd25519, msg []byte, sig crypto.Signature) bool {
	s, ok := sig.(crypto.SignatureEd25519)
	if !ok {
		return false
	}
	return verifUFBool("sigok", pk, msg, s)
}
func stub_c02_address(pk crypto.PubKeyEd25519) crypto.Address { return crypto.Address{pk[0], pk[1]} }

type c02App struct {
	BlockChainApp
	ok bool
}

func (a *c02App) CheckBlock(b *types.Block) bool { return a.ok }

type c02DB struct{ dbm.DB }

func c02PubKey(i int) crypto.PubKeyEd25519 { return crypto.PubKeyEd25519{byte(i + 1), 0x55} }

const c02Chain = "chain-A"

func c02LastID() types.BlockID {
	return types.BlockID{Hash: common.Hash{0xB1}, PartsHeader: types.PartSetHeader{Total: 1, Hash: []byte{0xA1}}}
}

func c02Hash32() (h common.Hash) {
	copy(h[:], verifNondetBytes(32))
	return
}

func c02Vote() *types.Vote {
	v := &types.Vote{ValidatorAddress: crypto.Address{verifNondetByte(), 0x55}, ValidatorIndex: verifNondetInt(),
		ValidatorSize: 2, Height: verifNondetUint64(), Round: verifCase(3), Type: verifNondetByte()} // rounds 0..2: the proposer rotation loops once per round
	if verifNondetBool() {
		v.BlockID = c02LastID()
	} else {
		v.BlockID = types.BlockID{Hash: common.Hash{0xB2}, PartsHeader: types.PartSetHeader{Total: 1, Hash: []byte{0xA2}}}
	}
	var s crypto.SignatureEd25519
	copy(s[:], verifNondetBytes(64))
	v.Signature = s
	return v
}

func c02SigOK(i int, v *types.Vote) bool {
	return c02PubKey(i).VerifyBytes(v.SignBytes(c02Chain), v.Signature)
}

// reference: the previous commit carries correctly signed precommits of more than two thirds of the
// previous validators (two validators of power 1: both) for the previous block, at height-1, in one round
func c02RefCommitOK(height uint64, c *types.Commit) bool {
	if len(c.Precommits) != 2 || c.Precommits[0] == nil || c.Precommits[1] == nil {
		return false
	}
	r := c.Precommits[0].Round
	for i, pc := range c.Precommits {
		if pc.Height != height-1 || pc.Round != r || pc.Type != types.VoteTypePrecommit || !c02SigOK(i, pc) ||
			!pc.BlockID.Equals(c02LastID()) {
			return false
		}
	}
	return true
}

//verif:opt unwind=12 budget_s=1200 split=32
func H_C02_prevote_only_fully_valid_block() {
	sel := verifCase(8)
	vals := make([]*types.Validator, 2)
	for i := range vals {
		pk := c02PubKey(i)
		vals[i] = &types.Validator{Address: pk.Address(), PubKey: pk, VotingPower: 1}
	}
	lastVals := &types.ValidatorSet{Validators: vals, Proposer: vals[0]}
	curVals := &types.ValidatorSet{Validators: vals, Proposer: vals[1]}
	const last = uint64(4)
	cs := &ConsensusState{}
	cs.Logger = log.Root()
	cs.config = &cfg.ConsensusConfig{}
	app := &c02App{ok: verifNondetBool()}
	cs.appmgr = app
	cs.blockExec = &BlockExecutor{db: &c02DB{}}
	cs.status = NewStatus{ChainID: c02Chain, LastBlockHeight: last, LastBlockTotalTx: 100, LastBlockID: c02LastID(),
		Validators: curVals, LastValidators: lastVals}
	cs.status.ConsensusParams.EvidenceParams.MaxAge = 10
	cs.Height, cs.Round, cs.Step = last+1, 0, cstypes.RoundStepPrevote
	cs.Validators, cs.LastValidators = curVals, lastVals

	// an arbitrary proposed block
	h := &types.Header{Height: verifNondetUint64(), NumTxs: uint64(verifCase(2)), TotalTxs: verifNondetUint64(),
		Recover: uint32(sel % 2), LastCommitHash: c02Hash32(), DataHash: c02Hash32(), EvidenceHash: c02Hash32(),
		ConsensusHash: c02Hash32(), ValidatorsHash: c02Hash32()}
	h.ChainID = c02Chain
	if (sel/2)%2 == 1 {
		h.ChainID = "other-chain"
	}
	if (sel/4)%2 == 1 {
		h.LastBlockID = c02LastID()
	} else {
		h.LastBlockID = types.BlockID{Hash: common.Hash{0xB2}, PartsHeader: types.PartSetHeader{Total: 1, Hash: []byte{0xA2}}}
	}
	commit := &types.Commit{BlockID: c02LastID(), Precommits: make([]*types.Vote, verifCase(4))}
	for i := range commit.Precommits {
		if verifNondetBool() {
			commit.Precommits[i] = c02Vote()
		}
	}
	block := &types.Block{Header: h, Data: &types.Data{}, LastCommit: commit}
	// the evidence every non-first block must carry: who proposed last time (round-0 form), possibly malformed
	if verifNondetBool() {
		fve := &types.FaultValidatorsEvidence{BlockHeight: verifNondetUint64(), Round: verifNondetInt()}
		if verifNondetBool() {
			fve.Proposer = c02PubKey(verifCase(2))
		}
		if verifNondetBool() {
			fve.FaultVal = c02PubKey(verifCase(2))
		}
		block.Evidence.Evidence = types.EvidenceList{fve}
	}
	cs.ProposalBlock = block
	cs.ProposalBlockParts = types.NewPartSetFromHeader(types.PartSetHeader{Total: 1, Hash: []byte{1}})
	// the proposal the block came with: an original one (no proof-of-lock round) or a re-proposal that
	// names any earlier round - whatever it names, the block is validated in full before the prevote
	cs.Proposal = &types.Proposal{Height: cs.Height, Round: cs.Round, POLRound: int(verifNondetInt8())}
	c02VoteCount, c02VoteHash = 0, nil

	cs.defaultDoPrevote(cs.Height, cs.Round)

	verifReach("prevoted")
	verifAssert(c02VoteCount == 1 && c02VoteType == types.VoteTypePrevote, "exactly-one-prevote")
	if len(c02VoteHash) != 0 {
		verifReach("prevoted-for-the-block")
		verifAssert(app.ok, "block-the-application-rejects-is-not-prevoted")
		verifAssert(h.ChainID == c02Chain, "prevoted-block-has-this-chain-id")
		verifAssert(h.Height == last+1, "prevoted-block-has-the-next-height")
		verifAssert(h.LastBlockID.Equals(c02LastID()), "prevoted-block-extends-the-last-block")
		verifAssert(h.TotalTxs == 100+uint64(len(block.Data.Txs)) && h.NumTxs == uint64(len(block.Data.Txs)), "prevoted-block-has-consistent-tx-totals")
		verifAssert(h.ConsensusHash == common.Hash{0xA0}, "prevoted-block-has-the-parameter-hash")
		verifAssert(h.ValidatorsHash == common.Hash{0x5E, 2} || h.Recover >= 1, "prevoted-block-has-the-validator-set-hash")
		verifAssert(h.LastCommitHash == common.Hash{0xC0} && h.DataHash == common.Hash{0xDA} && h.EvidenceHash == common.Hash{0xE0}, "prevoted-block-is-internally-hash-consistent")
		verifAssert(c02RefCommitOK(last+1, commit), "prevoted-block-carries-a-valid-previous-commit")
		verifAssert(len(block.Evidence.Evidence) == 1, "prevoted-block-carries-the-proposer-evidence")
	}
}
