//verif:pkg consensus
package consensus

import (
	cfg "github.com/lianxiangcloud/linkchain/config"
	cstypes "github.com/lianxiangcloud/linkchain/consensus/types"
	"github.com/lianxiangcloud/linkchain/libs/common"
	"github.com/lianxiangcloud/linkchain/libs/crypto"
	tmevents "github.com/lianxiangcloud/linkchain/libs/events"
	"github.com/lianxiangcloud/linkchain/libs/log"
	"github.com/lianxiangcloud/linkchain/types"
)

// C02 (precommit side; "no single Byzantine proposer can make correct nodes abort") — enterPrecommit
// when more than 2/3 prevoted a block id (hash H, part-set header P) while this node holds, as its
// proposal block, a body with the SAME header hash H that came in under a DIFFERENT part-set header
// P' (an equivocating proposer sent this node another body: the header hash binds the body only
// through hashes that validation checks, so such a body is simply invalid - or differs only where the
// application does not look). The node does not hold the block the others voted for: it must not
// abort, must not lock its own body, and must precommit nil and fetch the real block. Only when it
// holds exactly the polka's block (P' = P) may an invalid block be a consensus failure (then more than
// 1/3 of the power is faulty, outside C02's assumption).
//
// Real code: enterPrecommit over a real HeightVoteSet filled through AddVote. Cuts: signAddVote
// records the vote; the block hash is a constant (every body here has header hash H); evidence and
// application validity of the held body are arbitrary booleans.

//verif:filestub (*github.com/lianxiangcloud/linkchain/consensus.ConsensusState).signAddVote => stub_c02_signaddvote
//verif:filestub (*github.com/lianxiangcloud/linkchain/consensus.ConsensusState).checkBlockEvidence => stub_c02p_evidence
//verif:filestub (*github.com/lianxiangcloud/linkchain/types.Block).Hash => stub_c02_blockhash
//verif:filestub github.com/lianxiangcloud/linkchain/libs/ser.MarshalJSON => stub_c02_marshaljson
//verif:filestub github.com/lianxiangcloud/linkchain/types.CanonicalTime => stub_c02_ctime
//verif:filestub (github.com/lianxiangcloud/linkchain/types.BlockID).Key => stub_c02_blockkey
//verif:filestub (github.com/lianxiangcloud/linkchain/libs/crypto.PubKeyEd25519).VerifyBytes => stub_c02p_verify
//verif:filestub (github.com/lianxiangcloud/linkchain/libs/crypto.PubKeyEd25519).Address => stub_c02_address

var c02pEvidenceOK bool

func stub_c02p_evidence(cs *ConsensusState, block *types.Block) bool { return c02pEvidenceOK }
func stub_c02p_verify(pk crypto.PubKeyEd25519, msg []byte, sig crypto.Signature) bool {
	return true
}

func c02pEnterPrecommit(cs *ConsensusState) (aborted bool) {
	defer func() {
		if r := recover(); r != nil {
			aborted = true
		}
	}()
	cs.enterPrecommit(5, 0)
	return false
}

//verif:noop (*github.com/lianxiangcloud/linkchain/types.EventBus).Publish
//verif:noop (*github.com/lianxiangcloud/linkchain/consensus.ConsensusState).newStep
//verif:noopiface github.com/lianxiangcloud/linkchain/libs/events.EventSwitch
//verif:opt unwind=16 budget_s=600 split=8
func H_C02_polka_for_a_block_this_node_holds_another_body_of() {
	const n = 3
	vals := make([]*types.Validator, n)
	for i := range vals {
		pk := crypto.PubKeyEd25519{byte(i + 1), 0x55}
		vals[i] = &types.Validator{Address: pk.Address(), PubKey: pk, VotingPower: 1}
	}
	vs := &types.ValidatorSet{Validators: vals, Proposer: vals[0]}
	cs := &ConsensusState{}
	cs.Logger = log.NewNopLogger()
	cs.config = &cfg.ConsensusConfig{}
	app := &c02App{ok: verifNondetBool()}
	c02pEvidenceOK = verifNondetBool()
	cs.appmgr = app
	cs.status = NewStatus{ChainID: c02Chain, LastBlockHeight: 4}
	cs.Height, cs.Round, cs.Step = 5, 0, cstypes.RoundStepPrevote
	cs.Validators, cs.LastValidators = vs, vs
	cs.Votes = cstypes.NewHeightVoteSet(c02Chain, 5, vs)
	cs.Votes.SetRound(1)
	if !verifSymbolic() {
		bus := types.NewEventBus()
		bus.Start()
		cs.eventBus = bus
		cs.evsw = tmevents.NewEventSwitch()
		cs.wal = nilWAL{}
	}
	// the polka: all three prevote (H, P)
	polka := types.BlockID{Hash: common.Hash{0xBB}, PartsHeader: types.PartSetHeader{Total: 1, Hash: []byte{0xA1}}}
	for i := 0; i < n; i++ {
		v := &types.Vote{ValidatorAddress: vals[i].Address, ValidatorIndex: i, ValidatorSize: n, Height: 5, Round: 0,
			Type: types.VoteTypePrevote, BlockID: polka, Signature: crypto.SignatureEd25519{byte(i)}}
		added, err := cs.Votes.AddVote(v, "peer")
		if !added || err != nil {
			panic("model: prevote not added")
		}
	}
	// what this node holds: a body with header hash H under part-set header P' (the same or another)
	same := verifNondetBool()
	held := polka.PartsHeader
	if !same {
		held = types.PartSetHeader{Total: 1, Hash: []byte{0xA2}}
	}
	body := &types.Block{Header: &types.Header{Height: 5}, Data: &types.Data{}, LastCommit: &types.Commit{}}
	cs.ProposalBlock = body
	cs.ProposalBlockParts = types.NewPartSetFromHeader(held)
	c02VoteCount, c02VoteHash = 0, nil

	aborted := c02pEnterPrecommit(cs)
	if aborted {
		// the consensus routine would log CONSENSUS FAILURE and stop
		verifReach("consensus-failure")
		verifAssert(same, "abort-only-when-holding-exactly-the-block-two-thirds-voted-for")
		return
	}
	verifReach("precommit-step-done")
	verifAssert(c02VoteCount == 1 && c02VoteType == types.VoteTypePrecommit, "exactly-one-precommit")
	if same {
		// it holds the polka's block (and that block passed, or the step would have been a consensus failure)
		verifAssert(len(c02VoteHash) != 0 && cs.LockedBlock == body, "holding-the-polka-block-precommits-and-locks-it")
	} else {
		verifAssert(len(c02VoteHash) == 0, "another-body-with-the-same-header-hash-is-not-precommitted")
		verifAssert(cs.LockedBlock == nil, "another-body-with-the-same-header-hash-is-not-locked")
		verifAssert(cs.ProposalBlock == nil && cs.ProposalBlockParts.HasHeader(polka.PartsHeader), "the-polka-block-is-fetched")
	}
}

func c02pEnterCommit(cs *ConsensusState) (aborted bool) {
	defer func() {
		if r := recover(); r != nil {
			aborted = true
		}
	}()
	cs.enterCommit(5, 0)
	return false
}

// The same situation one step later: more than 2/3 PRECOMMITTED (H, P) - the block is decided - while
// this node still holds another body with header hash H under P' (it never went through its own
// precommit step for this round, e.g. the precommits overtook it). Entering the commit step must
// not abort: the node drops its body, sets up the parts of the decided block and waits for them.
//
//verif:noop (*github.com/lianxiangcloud/linkchain/types.EventBus).Publish
//verif:noop (*github.com/lianxiangcloud/linkchain/consensus.ConsensusState).newStep
//verif:noopiface github.com/lianxiangcloud/linkchain/libs/events.EventSwitch
//verif:opt unwind=16 budget_s=600 split=4
func H_C02_commit_of_a_block_this_node_holds_another_body_of() {
	const n = 3
	vals := make([]*types.Validator, n)
	for i := range vals {
		pk := crypto.PubKeyEd25519{byte(i + 1), 0x55}
		vals[i] = &types.Validator{Address: pk.Address(), PubKey: pk, VotingPower: 1}
	}
	vs := &types.ValidatorSet{Validators: vals, Proposer: vals[0]}
	cs := &ConsensusState{}
	cs.Logger = log.NewNopLogger()
	cs.config = &cfg.ConsensusConfig{}
	app := &c02App{ok: verifNondetBool()}
	c02pEvidenceOK = verifNondetBool()
	cs.appmgr = app
	cs.status = NewStatus{ChainID: c02Chain, LastBlockHeight: 4}
	cs.Height, cs.Round = 5, 0
	cs.Step = []cstypes.RoundStepType{cstypes.RoundStepPropose, cstypes.RoundStepPrevote, cstypes.RoundStepPrecommit}[verifCase(3)]
	cs.Validators, cs.LastValidators = vs, vs
	cs.Votes = cstypes.NewHeightVoteSet(c02Chain, 5, vs)
	cs.Votes.SetRound(1)
	if !verifSymbolic() {
		bus := types.NewEventBus()
		bus.Start()
		cs.eventBus = bus
		cs.evsw = tmevents.NewEventSwitch()
		cs.wal = nilWAL{}
	}
	decided := types.BlockID{Hash: common.Hash{0xBB}, PartsHeader: types.PartSetHeader{Total: 1, Hash: []byte{0xA1}}}
	for i := 0; i < n; i++ {
		v := &types.Vote{ValidatorAddress: vals[i].Address, ValidatorIndex: i, ValidatorSize: n, Height: 5, Round: 0,
			Type: types.VoteTypePrecommit, BlockID: decided, Signature: crypto.SignatureEd25519{byte(i)}}
		added, err := cs.Votes.AddVote(v, "peer")
		if !added || err != nil {
			panic("model: precommit not added")
		}
	}
	body := &types.Block{Header: &types.Header{Height: 5}, Data: &types.Data{}, LastCommit: &types.Commit{}}
	cs.ProposalBlock = body
	cs.ProposalBlockParts = types.NewPartSetFromHeader(types.PartSetHeader{Total: 1, Hash: []byte{0xA2}}) // P' != P

	aborted := c02pEnterCommit(cs)
	verifReach("commit-step-entered")
	verifAssert(!aborted, "deciding-a-block-this-node-holds-another-body-of-does-not-abort-it")
	if !aborted {
		verifAssert(cs.ProposalBlock == nil && cs.ProposalBlockParts.HasHeader(decided.PartsHeader), "the-decided-block-is-fetched")
		verifAssert(cs.Height == 5, "nothing-is-finalized-from-the-wrong-body")
	}
}
