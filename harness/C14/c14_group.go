//verif:pkg libs/autofile
package autofile

import (
	"bufio"
	"bytes"
	"io/ioutil"
	"os"
)

// C14 (the files under the log) — autofile.Group as the WAL uses it: records are appended with the
// buffered Write (peer messages) or Write+Flush (own messages, end-of-height markers), and the head
// file is rotated whenever the size tick finds it over its limit - at any point between those writes.
// Reading the group's files back in index order must give exactly the bytes that were written and
// flushed, in order: nothing lost, nothing duplicated, nothing reordered across the rotation.
//
// Real code: Group.Write/Flush/RotateFile, AutoFile.Write/Sync/openFile/closeFile, bufio.Writer. The
// file system is the engine's path-keyed model (natively: a temporary directory). The Group is built
// directly (OpenGroup would start the ticker goroutines); the write buffer is 8 bytes instead of
// 40 KiB so that writes smaller than, equal to and larger than the buffer all occur.

//verif:filestub github.com/lianxiangcloud/linkchain/libs/autofile.filePathForIndex => stub_c14g_path

func stub_c14g_path(headPath string, index int, maxIndex int) string {
	if index == maxIndex {
		return headPath
	}
	return headPath + "." + string([]byte{'0' + byte(index/100%10), '0' + byte(index/10%10), '0' + byte(index%10)})
}

//verif:opt unwind=40 budget_s=600 thorough.budget_s=3000 split=8 thorough.split=24
func H_C14_group_files_hold_what_was_written_in_order() {
	dir := "/verif-model-wal"
	if !verifSymbolic() {
		d, err := ioutil.TempDir("", "verif-c14g")
		if err != nil {
			panic(err)
		}
		defer os.RemoveAll(d)
		dir = d
	}
	head := &AutoFile{ID: "h", Path: dir + "/wal"}
	g := &Group{ID: "g", Head: head, headBuf: bufio.NewWriterSize(head, 8), Dir: dir}
	var want []byte
	rotations := 0
	steps := 4
	if verifThorough() {
		steps = 5
	}
	for step := 0; step < steps; step++ {
		switch verifCase(3) {
		case 0: // a buffered write of 1..10 bytes
			p := verifNondetBytes(1 + verifCase(10))
			n, err := g.Write(p)
			verifAssert(err == nil && n == len(p), "write-accepts-everything")
			want = append(want, p...)
		case 1:
			verifAssert(g.Flush() == nil, "flush-succeeds")
		case 2:
			if rotations < 2 {
				// as checkHeadSizeLimit does: look at the head's size (which opens/creates it), then rotate
				if _, err := head.Size(); err != nil {
					panic(err)
				}
				g.RotateFile()
				rotations++
			}
		}
	}
	verifAssert(g.Flush() == nil, "final-flush-succeeds")
	var got []byte
	for i := 0; i <= rotations; i++ {
		b, err := ioutil.ReadFile(stub_c14g_path(head.Path, i, rotations))
		if err == nil {
			got = append(got, b...)
		}
	}
	head.closeFile()
	verifReach("read-back")
	verifAssert(bytes.Equal(got, want), "files-in-index-order-hold-exactly-what-was-written")
}

// The contract of GroupReader.Read the WAL decoder relies on (and the torn-record harness in package
// consensus assumes of its reader): over one or two files holding arbitrary bytes, a Read into a
// buffer of 1..4 bytes either fills the buffer (nil error) or returns fewer bytes TOGETHER with a
// non-nil error (io.EOF after the newest file) - never a silent short read - and the bytes delivered
// over successive reads are the files' bytes in index order, across the file boundary.
//verif:opt unwind=40 budget_s=600 split=6
func H_C14_group_reader_fills_the_buffer_or_reports() {
	dir := "/verif-model-wal2"
	if !verifSymbolic() {
		d, err := ioutil.TempDir("", "verif-c14r")
		if err != nil {
			panic(err)
		}
		defer os.RemoveAll(d)
		dir = d
	}
	nfiles := 1 + verifCase(2)
	head := &AutoFile{ID: "h", Path: dir + "/wal"}
	g := &Group{ID: "g", Head: head, Dir: dir, minIndex: 0, maxIndex: nfiles - 1}
	var all []byte
	for i := 0; i < nfiles; i++ {
		b := verifNondetBytes(verifCase(4))
		if err := ioutil.WriteFile(stub_c14g_path(head.Path, i, nfiles-1), b, 0600); err != nil {
			panic(err)
		}
		all = append(all, b...)
	}
	gr := &GroupReader{Group: g}
	var got []byte
	for k := 0; k < 4; k++ {
		p := make([]byte, 1+verifCase(4))
		n, err := gr.Read(p)
		verifAssert(n >= 0 && n <= len(p), "count-within-the-buffer")
		verifAssert((n == len(p)) == (err == nil), "buffer-filled-or-an-error-reported-with-the-short-read")
		got = append(got, p[:n]...)
		if err != nil {
			verifReach("reader-ended")
			break
		}
	}
	gr.Close()
	verifAssert(len(got) <= len(all) && bytes.Equal(got, all[:len(got)]), "bytes-delivered-are-the-files-bytes-in-index-order")
}
