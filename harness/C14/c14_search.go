//verif:pkg consensus
package consensus

import (
	"errors"
	"io"

	auto "github.com/lianxiangcloud/linkchain/libs/autofile"
	"github.com/lianxiangcloud/linkchain/libs/log"
)

// C14 (where replay starts) — SearchForEndHeight over a rotated log: the marker of the height the
// node has to resume after is found whenever it is anywhere in the group, whatever else the files
// hold, and is not "found" when it is not there. The files' content is abstract: a file is a
// sequence of items (an #ENDHEIGHT marker of some height, another message, or a corrupted entry);
// the group (MinIndex/MaxIndex/NewReader), the reader and the record decoder are stubs that deliver
// those items, so what is decided is exactly the search logic - the newest-to-oldest walk, the early
// exit, the treatment of corrupted entries.
//
// Bounds: 1..3 files, per file an optional leading height-0 marker plus 0..1 items (thorough: 0..2).
//
// Assumed about the log (how baseWAL writes it): the non-zero marker heights are strictly
// ascending in log order; a height-0 marker may appear at the start of any file (OnStart writes one
// into an empty head, i.e. after a rotation followed by a restart).

//verif:filestub (*github.com/lianxiangcloud/linkchain/libs/autofile.Group).MinIndex => stub_c14s_min
//verif:filestub (*github.com/lianxiangcloud/linkchain/libs/autofile.Group).MaxIndex => stub_c14s_max
//verif:filestub (*github.com/lianxiangcloud/linkchain/libs/autofile.Group).NewReader => stub_c14s_newreader
//verif:filestub (*github.com/lianxiangcloud/linkchain/libs/autofile.GroupReader).Close => stub_c14s_close
//verif:filestub github.com/lianxiangcloud/linkchain/consensus.NewWALDecoder => stub_c14s_newdecoder
//verif:filestub (*github.com/lianxiangcloud/linkchain/consensus.WALDecoder).Decode => stub_c14s_decode

type c14sItem struct {
	kind   int // 0 = #ENDHEIGHT marker, 1 = another message, 2 = corrupted entry, 3 = torn last record (the process died while writing it)
	height uint64
}

var (
	c14sFiles  [][]c14sItem
	c14sFile   int
	c14sPos    int
	c14sOpened int
)

func stub_c14s_min(g *auto.Group) int { return 0 }
func stub_c14s_max(g *auto.Group) int { return len(c14sFiles) - 1 }
func stub_c14s_newreader(g *auto.Group, index int) (*auto.GroupReader, error) {
	c14sFile, c14sPos = index, 0
	c14sOpened++
	return &auto.GroupReader{}, nil
}
func stub_c14s_close(gr *auto.GroupReader) error      { return nil }
func stub_c14s_newdecoder(rd io.Reader) *WALDecoder   { return &WALDecoder{} }
func stub_c14s_decode(dec *WALDecoder) (*TimedWALMessage, error) {
	// the group reader runs on into the following files: a reader opened at index i delivers the
	// items of files i, i+1, ... (autofile.GroupReader.Read opens the next file at end of file)
	for c14sFile < len(c14sFiles) && c14sPos >= len(c14sFiles[c14sFile]) {
		c14sFile++
		c14sPos = 0
	}
	if c14sFile >= len(c14sFiles) {
		return nil, io.EOF
	}
	it := c14sFiles[c14sFile][c14sPos]
	c14sPos++
	switch it.kind {
	case 0:
		return &TimedWALMessage{Msg: EndHeightMessage{it.height}}, nil
	case 1:
		return &TimedWALMessage{Msg: timeoutInfo{}}, nil
	}
	if it.kind == 3 {
		// what the real decoder answers for a record cut inside its length field or payload: a plain
		// error, neither io.EOF nor a DataCorruptionError (established on the real Decode by
		// H_C14_torn_last_record_is_never_replayed, label torn-record-is-reported-as-...)
		return nil, c14sErrTorn
	}
	return nil, DataCorruptionError{io.ErrUnexpectedEOF}
}

var c14sErrTorn = errors.New("failed to read data: EOF")

//verif:opt unwind=24 budget_s=600 thorough.budget_s=2400 split=12 thorough.split=24
func H_C14_replay_start_marker_is_found_iff_present() {
	nfiles := 1 + verifCase(3)
	c14sFiles = make([][]c14sItem, nfiles)
	last := uint64(0) // last non-zero marker height so far, in log order
	for f := 0; f < nfiles; f++ {
		if verifNondetBool() {
			c14sFiles[f] = append(c14sFiles[f], c14sItem{kind: 0, height: 0}) // OnStart on an empty head
		}
		maxItems := 1
		if verifThorough() {
			maxItems = 2
		}
		n := verifCase(maxItems + 1)
		for i := 0; i < n; i++ {
			switch verifCase(3) {
			case 0:
				h := verifNondetUint64()
				verifAssume(h > last)
				last = h
				c14sFiles[f] = append(c14sFiles[f], c14sItem{kind: 0, height: h})
			case 1:
				c14sFiles[f] = append(c14sFiles[f], c14sItem{kind: 1})
			case 2:
				c14sFiles[f] = append(c14sFiles[f], c14sItem{kind: 2})
			}
		}
	}
	// the process may have died while appending a record: the newest file then ends with a torn record
	torn := verifNondetBool()
	if torn {
		c14sFiles[nfiles-1] = append(c14sFiles[nfiles-1], c14sItem{kind: 3})
	}
	target := verifNondetUint64()
	present := false
	for _, file := range c14sFiles {
		for _, it := range file {
			if it.kind == 0 && it.height == target {
				present = true
			}
		}
	}
	c14sOpened = 0
	wal := &baseWAL{group: &auto.Group{}}
	wal.Logger = log.NewNopLogger()
	_, found, err := wal.SearchForEndHeight(target, &WALSearchOptions{IgnoreDataCorruptionErrors: true})
	verifReach("searched")
	if torn {
		verifReach("searched-a-log-with-a-torn-last-record")
		verifAssert(err == nil, "search-does-not-fail-behind-a-torn-last-record")
		verifAssert(found == present, "marker-found-iff-present-behind-a-torn-last-record")
		return
	}
	verifAssert(err == nil, "search-does-not-fail-on-a-readable-log")
	verifAssert(found == present, "marker-found-iff-present")
}
