//verif:pkg consensus
package consensus

import (
	"bytes"
	"hash/crc32"
	"io"
)

// C14 (record layer) — the WAL record codec: what was encoded is decoded back in order; a log cut at
// any byte offset decodes to records that were written, in order, followed by end-of-log or an
// error; arbitrary bytes never crash the decoder or make it allocate above the record size limit.
// Real code: WALEncoder.Encode, WALDecoder.Decode over bytes.Buffer / bytes.Reader. The message
// codec (ser, reflective) is replaced by a payload carrier; CRC-32C is an uninterpreted function that
// is injective on equal-length inputs (i.e. "the checksum detects the alteration": for CRC-32 that is
// a 2^-32 statement, an assumption here, not a theorem).

//verif:filestub github.com/lianxiangcloud/linkchain/libs/ser.MustEncodeToBytes => stub_c14_encode
//verif:filestub github.com/lianxiangcloud/linkchain/libs/ser.DecodeBytes => stub_c14_decode
//verif:filestub hash/crc32.Checksum => stub_c14_crc

type c14Msg struct{ payload []byte }

func stub_c14_encode(v interface{}) []byte { return v.(*TimedWALMessage).Msg.(c14Msg).payload }
func stub_c14_decode(b []byte, v interface{}) error {
	v.(*TimedWALMessage).Msg = c14Msg{payload: append([]byte{}, b...)}
	return nil
}
func stub_c14_crc(data []byte, tab *crc32.Table) uint32 {
	h := verifHashBytes("crc32c", 4, data)
	return uint32(h[0])<<24 | uint32(h[1])<<16 | uint32(h[2])<<8 | uint32(h[3])
}

func c14Write(n int) ([]byte, [][]byte) {
	var buf bytes.Buffer
	enc := NewWALEncoder(&buf)
	var payloads [][]byte
	for i := 0; i < n; i++ {
		p := verifNondetBytes(1 + verifCase(3))
		payloads = append(payloads, p)
		if err := enc.Encode(&TimedWALMessage{Msg: c14Msg{payload: p}}); err != nil {
			panic(err)
		}
	}
	return buf.Bytes(), payloads
}

//verif:opt unwind=24 budget_s=900 split=9 max_split=40
func H_C14_records_replay_as_written_or_cut() {
	n := 1 + verifCase(2)
	log, payloads := c14Write(n)
	cut := verifNondetInt()
	verifAssume(cut >= 0 && cut <= len(log))
	dec := NewWALDecoder(bytes.NewReader(log[:cut]))
	got := 0
	for k := 0; k < n+1; k++ {
		m, err := dec.Decode()
		if err != nil {
			verifReach("ended")
			if cut == len(log) {
				verifAssert(err == io.EOF && got == n, "intact-log-replays-everything-then-eof")
			}
			break
		}
		verifAssert(got < n, "never-more-records-than-written")
		if got < n {
			verifAssert(bytes.Equal(m.Msg.(c14Msg).payload, payloads[got]), "decoded-record-is-the-one-written-at-that-position")
		}
		got++
	}
	// every record that lies entirely before the cut is replayed
	complete := 0
	off := 0
	for i := 0; i < n; i++ {
		off += 8 + len(payloads[i])
		if off <= cut {
			complete++
		}
	}
	verifAssert(got >= complete, "completely-written-records-are-replayed")
}

//verif:opt unwind=16 budget_s=600 split=10
func H_C14_decoder_arbitrary_bytes() {
	n := verifCase(13)
	b := verifNondetBytes(n)
	if n > 4 {
		// the length field as the decoder will read it (a short read leaves the missing bytes zero):
		// small, or above the limit (must be refused before allocating); lengths in between would need
		// a symbolic-length buffer and are outside this check
		var lb [4]byte
		end := n
		if end > 8 {
			end = 8
		}
		copy(lb[:], b[4:end])
		l := uint32(lb[0])<<24 | uint32(lb[1])<<16 | uint32(lb[2])<<8 | uint32(lb[3])
		verifAssume(l <= 16 || l > maxMsgSizeBytes)
	}
	verifAllocLimit(maxMsgSizeBytes)
	dec := NewWALDecoder(bytes.NewReader(b))
	m, err := dec.Decode()
	verifReach("decoded")
	verifAssert((m == nil) != (err == nil), "a-record-or-an-error")
}

// The reader the WAL really decodes from is autofile.GroupReader, whose Read fills the whole buffer or
// returns what it has TOGETHER with an error (io.EOF at the end of the newest file) - unlike
// bytes.Reader, which reports a short read without an error first. c14GroupLike follows that contract
// (the real GroupReader.Read is shown to follow it by H_C14_group_reader_fills_the_buffer_or_reports).
// A log cut at any byte: exactly the records that lie completely before the cut are replayed - a torn
// last record is never returned, even when the bytes that did not reach the disk were zeros (the
// decoder reads into a zeroed buffer, so a tolerated short read would make such a record "verify").
type c14GroupLike struct {
	data []byte
	pos  int
}

func (r *c14GroupLike) Read(p []byte) (int, error) {
	if len(p) == 0 {
		return 0, io.ErrShortBuffer
	}
	n := copy(p, r.data[r.pos:])
	r.pos += n
	if n < len(p) {
		return n, io.EOF
	}
	return n, nil
}

//verif:opt unwind=24 budget_s=900 split=9 max_split=40
func H_C14_torn_last_record_is_never_replayed() {
	n := 1 + verifCase(2)
	log, payloads := c14Write(n)
	cut := verifNondetInt()
	verifAssume(cut >= 0 && cut <= len(log))
	dec := NewWALDecoder(&c14GroupLike{data: log[:cut]})
	got := 0
	for k := 0; k < n+1; k++ {
		m, err := dec.Decode()
		if err != nil {
			verifReach("ended")
			// "followed by end-of-log or a corruption error": the search for the replay start skips
			// corruption errors and stops at end-of-log, anything else makes it give up
			verifAssert(err == io.EOF || IsDataCorruptionError(err), "torn-record-is-reported-as-end-of-log-or-corruption")
			break
		}
		verifAssert(got < n, "never-more-records-than-written")
		if got < n {
			verifAssert(bytes.Equal(m.Msg.(c14Msg).payload, payloads[got]), "decoded-record-is-the-one-written-at-that-position")
		}
		got++
	}
	complete := 0
	off := 0
	for i := 0; i < n; i++ {
		off += 8 + len(payloads[i])
		if off <= cut {
			complete++
		}
	}
	verifAssert(got == complete, "exactly-the-completely-written-records-are-replayed")
}
