//verif:pkg libs/ser
package ser

import (
	"bytes"
	"io"
)

// C11 — the byte layer of the encoding: splitters, head/size codecs, the encoder's list
// bookkeeping and the Stream primitives on arbitrary input. The reflective per-type
// encoder/decoder is not encodable and is not decided here.

func c11Buf(maxLen int) []byte {
	n := verifCase(maxLen + 1)
	return verifNondetBytes(n)
}

// Split / SplitString / SplitList / CountValues on an arbitrary buffer: no panic, the parts
// tile the input, non-canonical sizes are rejected.
//verif:opt unwind=12 budget_s=600 split=12
func H_C11_split_arbitrary_input() {
	maxLen := 10
	if verifThorough() {
		maxLen = 14
	}
	b := c11Buf(maxLen)
	k, content, rest, err := Split(b)
	verifReach("split-returned")
	if err == nil {
		verifReach("split-ok")
		verifAssert(len(content)+len(rest) <= len(b), "parts-inside-input")
		head := len(b) - len(content) - len(rest)
		verifAssert(head >= 0 && head <= 9, "head-size")
		verifAssert(bytes.Equal(b[head:head+len(content)], content) && bytes.Equal(b[head+len(content):], rest), "parts-tile-input")
		if k == Byte {
			verifAssert(head == 0 && len(content) == 1 && content[0] < 0x80, "byte-kind-is-own-encoding")
		}
		if head == 1 && len(content) == 1 && k == String {
			verifAssert(content[0] >= 0x80, "single-small-byte-must-not-use-string-form")
		}
		if head > 1 {
			verifAssert(len(content) >= 56, "long-form-only-for-56-and-more")
			verifAssert(b[1] != 0, "no-leading-zero-in-size")
		}
	} else {
		verifAssert(content == nil && len(rest) == len(b), "error-returns-input-as-rest")
	}
	c, rst, e2 := SplitString(b)
	verifAssert((e2 == nil) == (err == nil && k != List), "splitstring-iff-string")
	if e2 == nil {
		verifAssert(bytes.Equal(c, content) && len(rst) == len(rest), "splitstring-same-parts")
	}
	_, _, e3 := SplitList(b)
	verifAssert((e3 == nil) == (err == nil && k == List), "splitlist-iff-list")
}

// CountValues on an arbitrary short buffer: no panic, terminates, count bounded by the length
//verif:opt unwind=12 budget_s=600 split=6
func H_C11_countvalues_arbitrary_input() {
	maxLen := 4
	if verifThorough() {
		maxLen = 6
	}
	b := c11Buf(maxLen)
	n, err := CountValues(b)
	verifReach("counted")
	if err == nil {
		verifAssert(n >= 0 && n <= len(b), "count-bounded-by-length")
		verifAssert((n == 0) == (len(b) == 0), "count-zero-iff-empty")
	}
}

// a long-form value (content >= 56 bytes): accepted exactly when its size field is canonical
//verif:opt unwind=12 budget_s=600
func H_C11_split_long_form() {
	n := 58 + verifCase(3)
	b := verifNondetBytes(n)
	verifAssume(b[0] == 0xB8 || b[0] == 0xF8 || b[0] == 0xB9 || b[0] == 0xF9)
	_, content, rest, err := Split(b)
	verifReach("long-returned")
	one := b[0] == 0xB8 || b[0] == 0xF8
	var size int
	if one {
		size = int(b[1])
	} else {
		size = int(b[1])<<8 | int(b[2])
	}
	hdr := 2
	if !one {
		hdr = 3
	}
	wantOK := size >= 56 && b[1] != 0 && size <= n-hdr
	verifAssert((err == nil) == wantOK, "long-form-accepted-iff-canonical-and-fits")
	if err == nil {
		verifReach("long-ok")
		verifAssert(len(content) == size && len(rest) == n-hdr-size, "long-form-parts")
	}
}

// head and integer codecs: minimal, and readSize inverts puthead for every size
//verif:opt unwind=12
func H_C11_head_codec() {
	size := verifNondetUint64()
	var buf [9]byte
	n := puthead(buf[:], 0x80, 0xB7, size)
	verifReach("head")
	verifAssert(n == headsize(size), "puthead-length-is-headsize")
	if size < 56 {
		verifAssert(n == 1 && buf[0] == 0x80+byte(size), "short-form")
	} else {
		verifAssert(n == 1+intsize(size) && buf[0] == 0xB7+byte(n-1), "long-form-tag")
		verifAssert(buf[1] != 0, "minimal-size-bytes")
		got, err := readSize(buf[1:], byte(n-1))
		verifAssert(err == nil && got == size, "readsize-inverts-puthead")
	}
	var ib [8]byte
	m := putint(ib[:], size)
	verifAssert(m == intsize(size) && m >= 1 && m <= 8, "putint-length-is-intsize")
	var back uint64
	for i := 0; i < m; i++ {
		back = back<<8 | uint64(ib[i])
	}
	verifAssert(back == size, "putint-big-endian")
	verifAssert(size == 0 || ib[0] != 0, "putint-minimal")
}

// the encoder's list bookkeeping: a list around one string of k bytes encodes to a value that
// splits back into exactly that string, for payload sizes around the 55/56 boundary
//verif:opt unwind=80 budget_s=600
func H_C11_encbuf_list_roundtrip() {
	ks := []int{0, 1, 2, 53, 54, 55, 56, 57}
	k := ks[verifCase(len(ks))]
	str := verifNondetBytes(k)
	w := &encbuf{sizebuf: make([]byte, 9)}
	nested := verifNondetBool()
	var outer *listhead
	if nested {
		outer = w.list()
	}
	lh := w.list()
	w.encodeString(str)
	w.listEnd(lh)
	if nested {
		w.listEnd(outer)
	}
	out := w.toBytes()
	verifReach("encoded")
	verifAssert(len(out) == w.size(), "size-matches-output")
	content, rest, err := SplitList(out)
	verifAssert(err == nil && len(rest) == 0, "encoded-list-splits-cleanly")
	if err != nil {
		return
	}
	if nested {
		content, rest, err = SplitList(content)
		verifAssert(err == nil && len(rest) == 0, "inner-list-splits-cleanly")
		if err != nil {
			return
		}
	}
	s, rest2, err := SplitString(content)
	verifAssert(err == nil && len(rest2) == 0 && bytes.Equal(s, str), "string-roundtrip")
	// the writer path produces the same bytes
	var bb bytes.Buffer
	verifAssert(w.toWriter(&bb) == nil && bytes.Equal(bb.Bytes(), out), "writer-path-same-bytes")
}

func c11StreamOp(s *Stream, total int) {
	switch verifCase(7) {
	case 0:
		_, _, _ = s.Kind()
	case 1:
		b, err := s.Bytes()
		if err == nil {
			verifAssert(len(b) <= total, "bytes-within-input")
		}
	case 2:
		b, err := s.Raw()
		if err == nil {
			verifAssert(len(b) <= total, "raw-within-input")
		}
	case 3:
		_, _ = s.Uint()
	case 4:
		_, _ = s.Bool()
	case 5:
		sz, err := s.List()
		if err == nil {
			verifAssert(sz <= uint64(total), "list-size-within-input")
		}
	case 6:
		_ = s.ListEnd()
	}
}

// Stream primitives over an arbitrary limited input: no panic, no allocation above the input
// size (plus a re-created header), values never larger than the input.
//verif:opt unwind=16 budget_s=900 thorough.budget_s=3000 split=14 thorough.split=28 max_split=24
func H_C11_stream_arbitrary_input() {
	first := verifCase(7 * 2)
	maxLen := 9
	if verifThorough() {
		maxLen = 11
	}
	n := 1 + verifCase(maxLen)
	b := verifNondetBytes(n)
	var s *Stream
	if first%2 == 0 {
		s = NewStream(bytes.NewReader(b), 0) // limit discovered from the byte slice
	} else {
		s = NewStream(io.LimitReader(bytes.NewReader(b), int64(n)), uint64(n)) // explicit limit, buffered reader
	}
	verifReach("stream")
	verifAllocLimit(n + 9) // from here on: the decoding operations (bufio's fixed 4 KiB buffer was made above)
	// first operation fixed by the split, then two more arbitrary ones
	switch first / 2 {
	case 0:
		_, _, _ = s.Kind()
	case 1:
		x, err := s.Bytes()
		if err == nil {
			verifAssert(len(x) <= n, "bytes-within-input")
		}
	case 2:
		x, err := s.Raw()
		if err == nil {
			verifAssert(len(x) <= n, "raw-within-input")
		}
	case 3:
		_, _ = s.Uint()
	case 4:
		_, _ = s.Bool()
	case 5:
		sz, err := s.List()
		if err == nil {
			verifAssert(sz <= uint64(n), "list-size-within-input")
		}
	case 6:
		_ = s.ListEnd()
	}
	c11StreamOp(s, n)
	if verifThorough() {
		c11StreamOp(s, n)
	}
	verifReach("ops-done")
}

// sortableMapKey.Less is a strict total order on distinct keys (determinism of the map writer)
func H_C11_mapkey_order() {
	ka, kb := verifNondetBytes(3), verifNondetBytes(3)
	sm := sortableMapKey{&mapKey{key: ka}, &mapKey{key: kb}}
	l01, l10 := sm.Less(0, 1), sm.Less(1, 0)
	verifReach("cmp")
	verifAssert(!(l01 && l10), "less-asymmetric")
	verifAssert((l01 || l10) == !bytes.Equal(ka, kb), "less-total-on-distinct")
}

// a reader that hands out its bytes in arbitrary pieces, as a network connection or a part-set
// reader does: Read returns between 1 and len(p) of the remaining bytes, chosen by the solver
type c11ChunkReader struct {
	b   []byte
	pos int
}

func (r *c11ChunkReader) Read(p []byte) (int, error) {
	rem := len(r.b) - r.pos
	if rem == 0 {
		return 0, io.EOF
	}
	if len(p) == 0 {
		return 0, nil
	}
	max := len(p)
	if rem < max {
		max = rem
	}
	n := 1 + verifCase(max)
	copy(p, r.b[r.pos:r.pos+n])
	r.pos += n
	return n, nil
}

func (r *c11ChunkReader) ReadByte() (byte, error) {
	if r.pos == len(r.b) {
		return 0, io.EOF
	}
	c := r.b[r.pos]
	r.pos++
	return c, nil
}

// What a Stream decodes does not depend on how the input arrives: the same bytes read from a byte
// slice in one piece and from a reader that delivers them in arbitrary short reads give the same
// values and the same accept/reject decision.
//verif:opt unwind=16 budget_s=600 split=8
func H_C11_stream_result_independent_of_chunking() {
	n := 1 + verifCase(6)
	b := verifNondetBytes(n)
	whole := NewStream(bytes.NewReader(b), 0)
	pieces := NewStream(&c11ChunkReader{b: append([]byte(nil), b...)}, uint64(n))
	switch verifCase(3) {
	case 0:
		x1, e1 := whole.Bytes()
		x2, e2 := pieces.Bytes()
		verifAssert((e1 == nil) == (e2 == nil), "bytes-accepted-alike")
		if e1 == nil && e2 == nil {
			verifAssert(bytes.Equal(x1, x2), "bytes-equal")
		}
	case 1:
		x1, e1 := whole.Raw()
		x2, e2 := pieces.Raw()
		verifAssert((e1 == nil) == (e2 == nil), "raw-accepted-alike")
		if e1 == nil && e2 == nil {
			verifAssert(bytes.Equal(x1, x2), "raw-equal")
		}
	case 2:
		x1, e1 := whole.Uint()
		x2, e2 := pieces.Uint()
		verifAssert((e1 == nil) == (e2 == nil), "uint-accepted-alike")
		if e1 == nil && e2 == nil {
			verifAssert(x1 == x2, "uint-equal")
		}
	}
	verifReach("compared")
}
