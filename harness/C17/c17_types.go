//verif:pkg types
package types

import (
	"bytes"
	"math"
)

// C17 — proposer schedule and validator-set updates: deterministic, path-independent.

func c17Addr(i int) []byte { return []byte{byte(i + 1)} }

// c17Vals builds n validators with distinct concrete addresses (given in the
// order perm) and symbolic powers in [1, 2^40].
func c17Vals(n int, powers []int64) []*Validator {
	vals := make([]*Validator, n)
	for i := 0; i < n; i++ {
		vals[i] = &Validator{Address: c17Addr(i), VotingPower: powers[i]}
	}
	return vals
}

func c17Powers(n int) []int64 {
	ps := make([]int64, n)
	for i := range ps {
		p := verifNondetInt64()
		verifAssume(p >= 1 && p <= 1<<40)
		ps[i] = p
	}
	return ps
}

func c17SameState(a, b *ValidatorSet) bool {
	if len(a.Validators) != len(b.Validators) {
		return false
	}
	for i := range a.Validators {
		if a.Validators[i].Accum != b.Validators[i].Accum {
			return false
		}
	}
	return true
}

// Path independence: reaching round r one round at a time (enterNewRound passes
// round-cs.Round = 1 each time) and by skipping (one call with the difference)
// must give the same proposer and the same priorities. Start state is what
// NewValidatorSet produces, followed by k single rotations (reachable states).
//verif:opt unwind=8 budget_s=500 thorough.budget_s=3000 thorough.split=8
func H_C17_path_independence() {
	n := 2
	if verifThorough() {
		n = 2 + verifCase(2)
	}
	ps := c17Powers(n)
	a := NewValidatorSet(c17Vals(n, ps))
	b := NewValidatorSet(c17Vals(n, ps))
	verifAssert(c17SameState(a, b) && bytes.Equal(a.Proposer.Address, b.Proposer.Address), "construction-deterministic")
	pre := verifCase(2) // rotations already done on both
	for i := 0; i < pre; i++ {
		a.IncrementAccum(1)
		b.IncrementAccum(1)
	}
	verifReach("start-state")
	total := 2
	if verifThorough() {
		total = 2 + verifCase(2)
	}
	for i := 0; i < total; i++ {
		a.IncrementAccum(1)
	}
	b.IncrementAccum(total)
	verifReach("both-rotated")
	verifAssert(bytes.Equal(a.Proposer.Address, b.Proposer.Address), "skip-rounds-same-proposer")
	verifAssert(c17SameState(a, b), "skip-rounds-same-priorities")
}

// The proposer choice is a strict total order: highest priority wins, ties are
// broken by the lower address; the heap's choice equals the linear scan's.
//verif:opt unwind=8
func H_C17_tiebreak_total() {
	n := 2 + verifCase(2)
	vals := make([]*Validator, n)
	for i := 0; i < n; i++ {
		acc := verifNondetInt64()
		p := verifNondetInt64()
		verifAssume(p >= 1 && p <= 1<<40)
		verifAssume(acc >= -(1<<42) && acc <= 1<<42)
		vals[i] = &Validator{Address: c17Addr(i), VotingPower: p, Accum: acc}
	}
	vs := &ValidatorSet{Validators: vals}
	// reference: max accum, ties to lowest address (index order == address order here)
	best := 0
	for i := 1; i < n; i++ {
		if vals[i].Accum > vals[best].Accum {
			best = i
		}
	}
	got := vs.findProposer()
	verifReach("scanned")
	verifAssert(got == vals[best], "findProposer-is-max-accum-lowest-address")
	// antisymmetry / totality of the comparator
	x, y := vals[0], vals[1]
	verifAssert(x.CompareAccum(y) == y.CompareAccum(x), "compare-symmetric")
	l1 := accumComparable{x}.Less(accumComparable{y})
	l2 := accumComparable{y}.Less(accumComparable{x})
	verifAssert(l1 != l2, "less-strict-total")
	// heap's choice after a rotation by zero extra power equals the scan's choice
	cp := vs.Copy()
	for _, v := range cp.Validators {
		v.VotingPower = 0
	}
	cp.totalVotingPower = 0
	cp.IncrementAccum(1) // adds 0 to everyone, subtracts total (=0) from the top
	verifAssert(bytes.Equal(cp.Proposer.Address, vals[best].Address), "heap-choice-equals-scan")
}

// Validator-set identity does not depend on insertion order or on priorities.
//verif:opt unwind=10
func H_C17_order_independent_construction() {
	n := 3
	ps := c17Powers(n)
	vals := c17Vals(n, ps)
	perms := [][3]int{{0, 1, 2}, {0, 2, 1}, {1, 0, 2}, {1, 2, 0}, {2, 0, 1}, {2, 1, 0}}
	pm := perms[verifCase(6)]
	shuffled := []*Validator{vals[pm[0]], vals[pm[1]], vals[pm[2]]}
	a := NewValidatorSet(vals)
	b := NewValidatorSet(shuffled)
	verifReach("built")
	for i := 0; i < n; i++ {
		verifAssert(bytes.Equal(a.Validators[i].Address, b.Validators[i].Address), "same-order")
		verifAssert(a.Validators[i].VotingPower == b.Validators[i].VotingPower, "same-power")
		verifAssert(a.Validators[i].Accum == b.Validators[i].Accum, "same-accum")
		if i > 0 {
			verifAssert(bytes.Compare(a.Validators[i-1].Address, a.Validators[i].Address) < 0, "sorted-strict")
		}
	}
	verifAssert(bytes.Equal(a.Proposer.Address, b.Proposer.Address), "same-proposer")
	verifAssert(a.TotalVotingPower() == b.TotalVotingPower(), "same-total")
}

// saturating reference sum written without the code's helpers
func c17RefTotal(vals []*Validator) int64 {
	var t int64
	for _, v := range vals {
		if v.VotingPower > math.MaxInt64-t {
			return math.MaxInt64
		}
		t += v.VotingPower
	}
	return t
}

// Add / Update / Remove keep the slice sorted and duplicate-free and leave no
// stale cache behind: total power and proposer are those of a freshly built
// set with the same members - for all powers, including ones whose sum saturates.
//verif:opt unwind=10 split=12 thorough.split=16
func H_C17_add_update_remove() {
	nmax := 2
	if verifThorough() {
		nmax = 3
	}
	sel := verifCase(3 << uint(nmax)) // operation x membership subset
	op := sel % 3
	subset := sel / 3
	// present addresses are a subset of {1,2,3}; the operand address is symbolic in 0..4
	var vals []*Validator
	for i := 0; i < nmax; i++ {
		if subset&(1<<uint(i)) != 0 {
			p := verifNondetInt64()
			verifAssume(p >= 1)
			vals = append(vals, &Validator{Address: []byte{byte(i + 1)}, VotingPower: p})
		}
	}
	vs := &ValidatorSet{Validators: vals}
	// both caches are populated, as they are after NewValidatorSet / a rotation
	if len(vals) > 0 {
		vs.Proposer = vals[verifCase(len(vals))]
	}
	oldProposer := vs.Proposer
	_ = vs.TotalVotingPower()
	ab := verifNondetByte()
	verifAssume(ab <= 4)
	addr := []byte{ab}
	present := false
	for _, v := range vals {
		if v.Address[0] == ab {
			present = true
		}
	}
	np := verifNondetInt64()
	verifAssume(np >= 1)
	before := len(vs.Validators)
	wantLen := before
	changed := false
	switch op {
	case 0:
		ok := vs.Add(&Validator{Address: addr, VotingPower: np})
		verifAssert(ok == !present, "add-iff-absent")
		changed = ok
		if ok {
			wantLen++
		}
	case 1:
		ok := vs.Update(&Validator{Address: addr, VotingPower: np})
		verifAssert(ok == present, "update-iff-present")
		changed = ok
		if ok {
			_, v := vs.GetByAddress(addr)
			verifAssert(v != nil && v.VotingPower == np, "updated-power")
		}
	case 2:
		rv, ok := vs.Remove(addr)
		verifAssert(ok == present, "remove-iff-present")
		changed = ok
		if ok {
			verifAssert(rv != nil && rv.Address[0] == ab, "removed-the-one")
			wantLen--
			verifAssert(!vs.HasAddress(addr), "removed-is-gone")
		}
	}
	verifReach("op-done")
	verifAssert(len(vs.Validators) == wantLen, "size")
	for i := 1; i < len(vs.Validators); i++ {
		verifAssert(bytes.Compare(vs.Validators[i-1].Address, vs.Validators[i].Address) < 0, "sorted-unique")
	}
	verifAssert(vs.TotalVotingPower() == c17RefTotal(vs.Validators), "total-power-is-that-of-a-fresh-set")
	if !changed {
		verifAssert(vs.Proposer == oldProposer, "rejected-op-keeps-proposer")
	} else if len(vs.Validators) > 0 {
		// a changed membership must not keep the stale proposer cache
		p := vs.GetProposer()
		fresh := &ValidatorSet{Validators: vs.Validators}
		verifAssert(bytes.Equal(p.Address, fresh.findProposer().Address), "proposer-is-that-of-a-fresh-set")
	}
}

// Saturating arithmetic equals the mathematical result clamped to int64.
func H_C17_saturation_addsub() {
	a := verifNondetInt64()
	b := verifNondetInt64()
	// reference in 128-bit style: split on overflow conditions without wrapping
	s := safeAddClip(a, b)
	if b >= 0 {
		if a > math.MaxInt64-b {
			verifAssert(s == math.MaxInt64, "add-clips-high")
		} else {
			verifAssert(s == a+b, "add-exact")
		}
	} else {
		if a < math.MinInt64-b {
			verifAssert(s == math.MinInt64, "add-clips-low")
		} else {
			verifAssert(s == a+b, "add-exact-neg")
		}
	}
	d := safeSubClip(a, b)
	if b >= 0 {
		if a < math.MinInt64+b {
			verifAssert(d == math.MinInt64, "sub-clips-low")
		} else {
			verifAssert(d == a-b, "sub-exact")
		}
	} else {
		if a > math.MaxInt64+b {
			verifAssert(d == math.MaxInt64, "sub-clips-high")
		} else {
			verifAssert(d == a-b, "sub-exact-neg")
		}
	}
	verifReach("done")
}

// safeMulClip for the multipliers the code uses (a small round difference).
//verif:opt query_timeout_ms=60000
func H_C17_saturation_mul_const() {
	a := verifNondetInt64()
	k := int64(1 + verifCase(4))
	m := safeMulClip(a, k)
	hi := math.MaxInt64 / k
	lo := math.MinInt64 / k
	if a > hi {
		verifAssert(m == math.MaxInt64, "mul-clips-high")
	} else if a < lo {
		verifAssert(m == math.MinInt64, "mul-clips-low")
	} else {
		verifAssert(m == a*k, "mul-exact")
	}
	verifReach("done")
}

// TotalVotingPower saturates instead of wrapping.
//verif:opt unwind=6
func H_C17_total_power_saturates() {
	n := 3
	vals := make([]*Validator, n)
	for i := 0; i < n; i++ {
		p := verifNondetInt64()
		verifAssume(p >= 0)
		vals[i] = &Validator{Address: c17Addr(i), VotingPower: p}
	}
	vs := &ValidatorSet{Validators: vals}
	t := vs.TotalVotingPower()
	verifReach("summed")
	verifAssert(t >= vals[0].VotingPower && t >= vals[1].VotingPower && t >= vals[2].VotingPower, "total-never-wraps")
}

// Differential against a reference of the documented rotation algorithm
// (add times*power to everyone; then times times: the highest priority, ties
// to the lowest address, pays the total power; the last payer is the proposer).
//verif:opt unwind=8 budget_s=500
func H_C17_increment_matches_reference() {
	n := 2
	if verifThorough() {
		n = 2 + verifCase(2)
	}
	vals := make([]*Validator, n)
	acc := make([]int64, n)
	pw := make([]int64, n)
	var total int64
	for i := 0; i < n; i++ {
		a := verifNondetInt64()
		p := verifNondetInt64()
		verifAssume(p >= 1 && p <= 1<<40)
		verifAssume(a >= -(1<<42) && a <= 1<<42)
		vals[i] = &Validator{Address: c17Addr(i), VotingPower: p, Accum: a}
		acc[i], pw[i] = a, p
		total += p
	}
	vs := &ValidatorSet{Validators: vals}
	times := 1 + verifCase(2)
	vs.IncrementAccum(times)
	// reference (no overflow possible in these ranges)
	last := -1
	for i := 0; i < n; i++ {
		acc[i] += pw[i] * int64(times)
	}
	for k := 0; k < times; k++ {
		best := 0
		for i := 1; i < n; i++ {
			if acc[i] > acc[best] {
				best = i
			}
		}
		acc[best] -= total
		last = best
	}
	verifReach("rotated")
	for i := 0; i < n; i++ {
		verifAssert(vs.Validators[i].Accum == acc[i], "accum-matches-reference")
	}
	verifAssert(vs.Proposer == vals[last], "proposer-matches-reference")
	var sum int64
	for i := 0; i < n; i++ {
		sum += vs.Validators[i].Accum
	}
	var sum0 int64
	for i := 0; i < n; i++ {
		sum0 += acc[i]
	}
	verifAssert(sum == sum0, "priority-sum-conserved")
}
