//verif:pkg consensus
package consensus

import (
	cfg "github.com/lianxiangcloud/linkchain/config"
	cmn "github.com/lianxiangcloud/linkchain/libs/common"
	"github.com/lianxiangcloud/linkchain/libs/crypto"
	tmevents "github.com/lianxiangcloud/linkchain/libs/events"
	"github.com/lianxiangcloud/linkchain/libs/log"
	"github.com/lianxiangcloud/linkchain/types"
)

// C17 (consensus side) — the validator set recorded in the chain status (what ApplyBlock derives the
// next set from, and what fast sync / crash replay start from) does not depend on how many rounds this
// node walked through at the height: enterNewRound rotates the proposer on the round state's own copy,
// never on the set it shares with cs.status after updateToStatus.
//
// Real code: updateToStatus, enterNewRound, ValidatorSet.Copy/IncrementAccum. Cuts: enterPropose is a
// recording stub (C01/C02); event publication, WAL writes and metrics are no-ops.

//verif:noop (*github.com/lianxiangcloud/linkchain/types.EventBus).Publish
//verif:noop (*github.com/lianxiangcloud/linkchain/consensus.ConsensusState).newStep
//verif:noopiface github.com/lianxiangcloud/linkchain/libs/events.EventSwitch
//verif:filestub (*github.com/lianxiangcloud/linkchain/consensus.ConsensusState).enterPropose => stub_c17c_enter2
//verif:filestub (github.com/lianxiangcloud/linkchain/libs/crypto.PubKeyEd25519).Address => stub_c17c_address

var c17cProposed int

func stub_c17c_enter2(cs *ConsensusState, height uint64, round int)    { c17cProposed++ }
func stub_c17c_address(pk crypto.PubKeyEd25519) crypto.Address         { return crypto.Address{pk[0], pk[1]} }

type c17cSnap struct {
	accum    [3]int64
	proposer byte
}

func c17cSnapshot(vs *types.ValidatorSet) c17cSnap {
	var s c17cSnap
	for i, v := range vs.Validators {
		s.accum[i] = v.Accum
	}
	s.proposer = vs.Proposer.Address[0]
	return s
}

//verif:opt unwind=16 budget_s=900 split=9
func H_C17_round_changes_leave_the_chain_status_alone() {
	vals := make([]*types.Validator, 3)
	for i := range vals {
		pk := crypto.PubKeyEd25519{byte(i + 1), 0x55}
		p := int64(verifNondetUint8())
		verifAssume(p >= 1)
		verifAssume(p <= 4)
		vals[i] = &types.Validator{Address: pk.Address(), PubKey: pk, VotingPower: p}
	}
	vs := types.NewValidatorSet(vals)
	status := NewStatus{ChainID: "chain-A", LastBlockHeight: 4, Validators: vs, LastValidators: vs.Copy()}
	cs := &ConsensusState{}
	cs.Logger = log.NewNopLogger()
	cs.config = &cfg.ConsensusConfig{CreateEmptyBlocks: true} // round 0 goes straight to enterPropose
	cs.metrics = NopMetrics()
	cs.CommitRound = -1
	cs.wal = nilWAL{}
	if !verifSymbolic() {
		bus := types.NewEventBus()
		bus.Start()
		cs.eventBus = bus
		cs.evsw = tmevents.NewEventSwitch()
	}
	cs.updateToStatus(status)
	before := c17cSnapshot(cs.status.Validators)
	ref := cs.status.Validators.Copy() // what the rounds walked should amount to, on a private copy

	// the node walks to round r1, then on to r2, then on to r3 (a step of 0 is the ignored duplicate)
	round := 0
	for k := 0; k < 3; k++ {
		step := verifCase(3)
		if k == 0 || step > 0 {
			if step > 0 {
				ref.IncrementAccum(step)
			}
			round += step
			cs.enterNewRound(5, round)
		}
	}
	verifReach("rounds-walked")
	verifAssert(cs.Round == round, "round-entered")
	verifAssert(c17cSnapshot(cs.status.Validators) == before, "chain-status-validators-unchanged-by-round-changes")
	verifAssert(c17cSnapshot(cs.Validators) == c17cSnapshot(ref), "round-proposer-is-the-status-set-rotated-by-the-rounds-walked")
}

func stub_c17c_hexstring(b cmn.HexBytes) string { return string(b) }

// Who proposed the last block, and who failed to in round 0, is derived twice: by the proposer that
// builds the evidence into its block (getLastFaultValsInfo) and by every validator that checks it
// (VerifyFaultValEvidence). Both must rotate the SAME set (the validators of the last height, as the
// status records them) by the SAME number of rounds: for every such set, every commit round and also
// when the current set differs from the last one, the evidence an honest proposer builds is accepted,
// and evidence naming another proposer is not.
//verif:stub (github.com/lianxiangcloud/linkchain/libs/common.HexBytes).String => stub_c17c_hexstring
//verif:opt unwind=16 budget_s=900 split=8
func H_C17_builder_and_verifier_of_proposer_evidence_agree() {
	mk := func() *types.ValidatorSet {
		vals := make([]*types.Validator, 3)
		for i := range vals {
			pk := crypto.PubKeyEd25519{byte(i + 1), 0x55}
			p := int64(verifNondetUint8())
			verifAssume(p >= 1)
			verifAssume(p <= 4)
			vals[i] = &types.Validator{Address: pk.Address(), PubKey: pk, VotingPower: p}
		}
		return types.NewValidatorSet(vals)
	}
	last := mk()
	cur := last.Copy()
	cur.IncrementAccum(1) // what updateStatus derives when the set does not change ...
	if verifNondetBool() {
		cur = mk() // ... or a fresh set after a validator change
	}
	round := verifCase(4)
	commit := &types.Commit{Precommits: []*types.Vote{{Height: 4, Round: round, Type: types.VoteTypePrecommit}}}
	cs := &ConsensusState{}
	cs.Logger = log.NewNopLogger()
	cs.Height = 5
	cs.LastValidators, cs.Validators = last, cur
	cs.status = NewStatus{ChainID: "chain-A", LastBlockHeight: 4, Validators: cur, LastValidators: last}
	ev := cs.getLastFaultValsInfo(commit)
	fvi, ok := ev.(*types.FaultValidatorsEvidence)
	verifAssert(ok && fvi != nil, "an-honest-proposer-builds-the-evidence")
	verifReach("evidence-built")
	verifAssert(VerifyFaultValEvidence(cs.status, commit, fvi) == nil, "honest-proposer-evidence-is-accepted")
	// evidence naming another validator as the proposer is refused
	forged := *fvi
	other := crypto.PubKeyEd25519{byte(1 + verifCase(3)), 0x55}
	verifAssume(other != fvi.Proposer.(crypto.PubKeyEd25519))
	forged.Proposer = other
	verifAssert(VerifyFaultValEvidence(cs.status, commit, &forged) != nil, "evidence-naming-another-proposer-is-refused")
}
