//verif:pkg utxo
package utxo

import (
	"errors"

	dbm "github.com/lianxiangcloud/linkchain/libs/db"
	lctypes "github.com/lianxiangcloud/linkchain/libs/cryptonote/types"
	"github.com/lianxiangcloud/linkchain/libs/log"
)

// C07 (the spent set across blocks and restarts) — CommitBlock hands the key images a committed block
// spent to UtxoStore.SaveUtxo and goes on whatever that returns. The spent set is what keeps a key
// image from being accepted again in a later block (HaveTxKeyimgAsSpent): once the block is committed
// every one of its key images must be in it - also when the OUTPUT side of the store (separate
// databases) fails, as long as the key-image database itself is healthy.
//
// Real code: SaveUtxo, SaveKImages, SaveUtxoOutputs (with no outputs: its batches are still
// committed), HaveTxKeyimgAsSpent over MemDB. The output databases are wrappers whose batch commit
// fails or not, chosen by the solver.

var errC07s = errors.New("output database: commit failed")

type c07sBatch struct {
	dbm.Batch
	fail bool
}

func (b *c07sBatch) Commit() error {
	if b.fail {
		return errC07s
	}
	return b.Batch.Commit()
}

type c07sDB struct {
	dbm.DB
	fail bool
}

func (d *c07sDB) NewBatch() dbm.Batch { return &c07sBatch{Batch: d.DB.NewBatch(), fail: d.fail} }

func stub_c07s_saveseq(u *UtxoStore, m map[string]int64) error { return nil }

//verif:stub (*github.com/lianxiangcloud/linkchain/utxo.UtxoStore).saveTokenUtxoOutputSeq => stub_c07s_saveseq
//verif:opt unwind=12 budget_s=600
func H_C07_committed_blocks_key_images_are_in_the_spent_set() {
	u := &UtxoStore{
		utxoDB:                   dbm.NewMemDB(),
		utxoOutputDB:             &c07sDB{DB: dbm.NewMemDB(), fail: verifNondetBool()},
		utxoOutputTokenDB:        &c07sDB{DB: dbm.NewMemDB(), fail: verifNondetBool()},
		maxUtxoOutputSeqTokenMap: map[string]int64{},
		logger:                   log.NewNopLogger(),
	}
	n := 1 + verifCase(2)
	var imgs []*lctypes.Key
	for i := 0; i < n; i++ {
		var k lctypes.Key
		copy(k[:], verifNondetBytes(2)) // two symbolic bytes, the rest zero
		k[31] = byte(i + 1)
		imgs = append(imgs, &k)
	}
	_ = u.SaveUtxo(imgs, nil, 7) // CommitBlock ignores the result
	verifReach("block-committed")
	for _, k := range imgs {
		verifAssert(u.HaveTxKeyimgAsSpent(k), "every-key-image-of-a-committed-block-is-in-the-spent-set")
	}
}
