//verif:pkg mempool
package mempool

import (
	"math/big"
	"time"

	cfg "github.com/lianxiangcloud/linkchain/config"
	"github.com/lianxiangcloud/linkchain/libs/clist"
	"github.com/lianxiangcloud/linkchain/libs/common"
	"github.com/lianxiangcloud/linkchain/libs/log"
	"github.com/lianxiangcloud/linkchain/types"
)

// C07 (mempool side; shared definitions with the C15 harnesses) — what the pool offers after a block commit: committed transactions are gone, transactions
// that became executable are promoted, what is offered per sender is a gap-free nonce run starting at
// the committed nonce. The real Mempool.Update (filterTxs, recheckTxs, promoteExecutables),
// addGoodTx, addFutureTx, txList / txSortedMap (container/heap) and clist are executed against an
// application model (committed nonce per sender, CheckTx = exact-next-nonce rule). Transactions are a
// harness type behind the types.RegularTx interface (sender, nonce, identity byte).

//verif:noopiface github.com/go-kit/kit/metrics.Gauge

type c07mTx struct {
	types.RegularTx
	from  common.Address
	nonce uint64
	id    byte
	utxo  bool // an account-input UTXO-type transaction (it consumes the sender's account nonce like any other)
}

func (t *c07mTx) Hash() common.Hash             { return common.Hash{0x7A, t.from[0], byte(t.nonce), t.id} }
func (t *c07mTx) From() (common.Address, error) { return t.from, nil }
func (t *c07mTx) Nonce() uint64                 { return t.nonce }
func (t *c07mTx) TypeName() string {
	if t.utxo {
		return types.TxUTXO
	}
	return types.TxNormal
}
func (t *c07mTx) Gas() uint64                   { return 21000 }
func (t *c07mTx) GasPrice() *big.Int            { return big.NewInt(1) }
func (t *c07mTx) Value() *big.Int               { return big.NewInt(0) }

type c07mApp struct {
	committed map[common.Address]uint64 // next nonce of each sender in the committed state
	spec      map[common.Address]uint64 // next nonce in the speculative (check) state
}

func (a *c07mApp) GetNonce(addr common.Address) uint64     { return a.spec[addr] }
func (a *c07mApp) GetBalance(addr common.Address) *big.Int { return big.NewInt(1 << 40) }
func (a *c07mApp) CheckTx(tx types.Tx, checkType bool) error {
	from, _ := tx.From()
	n := tx.(*c07mTx).nonce
	if n < a.spec[from] {
		return types.ErrNonceTooLow
	}
	if n > a.spec[from] {
		return types.ErrNonceTooHigh
	}
	a.spec[from] = n + 1
	return nil
}

var (
	c07mA = common.Address{0xA}
	c07mB = common.Address{0xB}
	c07mC = common.Address{0xC}
)

func c07mPool(app App, size int) *Mempool {
	return &Mempool{
		config:      &cfg.MempoolConfig{Size: size, FutureSize: 8, SpecSize: 2, AccountQueue: 8},
		app:         app,
		utxoTxs:     clist.New(),
		goodTxs:     clist.New(),
		specGoodTxs: clist.New(),
		futureTxs:   make(map[common.Address]*txList),
		beats:       make(map[common.Address]time.Time),
		cache:       nopTxCache{},
		metrics:     NopMetrics(),
		logger:      log.NewNopLogger(),
	}
}

func c07mGood(mem *Mempool) []*c07mTx {
	var out []*c07mTx
	for e := mem.goodTxs.Front(); e != nil; e = e.Next() {
		out = append(out, e.Value.(*mempoolTx).tx.(*c07mTx))
	}
	return out
}

func c07mInFuture(mem *Mempool, tx *c07mTx) bool {
	l := mem.futureTxs[tx.from]
	return l != nil && l.txs.Get(tx.nonce) != nil
}
