//verif:pkg libs/trie
package trie

import (
	"bytes"
	"io"
)

// C10 — the in-memory Merkle-Patricia structure, its key codecs, node decoder, root and proofs.
//
// Environment: Keccak-256 is a collision-free uninterpreted function; the reflective node encoder
// (ser.Encode / ser.EncodeToBytes of trie nodes) is replaced by a hand-written RLP encoder for the
// four node kinds (the real decoder decodeNode parses its output, so the two are cross-checked);
// the hasher pool (sync.Pool) is bypassed.

//verif:filestub github.com/lianxiangcloud/linkchain/libs/trie.newHasher => stub_c10_newhasher
//verif:filestub github.com/lianxiangcloud/linkchain/libs/trie.returnHasherToPool => stub_c10_returnhasher
//verif:filestub (*github.com/lianxiangcloud/linkchain/libs/trie.hasher).makeHashNode => stub_c10_makehash
//verif:filestub github.com/lianxiangcloud/linkchain/libs/ser.Encode => stub_c10_encode
//verif:filestub github.com/lianxiangcloud/linkchain/libs/ser.EncodeToBytes => stub_c10_encodetobytes
//verif:filestub github.com/lianxiangcloud/linkchain/libs/crypto.Keccak256 => stub_c10_keccak

func stub_c10_newhasher(cachegen, cachelimit uint16, onleaf LeafCallback) *hasher {
	return &hasher{tmp: make(sliceBuffer, 0, 64), cachegen: cachegen, cachelimit: cachelimit, onleaf: onleaf}
}
func stub_c10_returnhasher(h *hasher)                        {}
func stub_c10_makehash(h *hasher, data []byte) hashNode      { return hashNode(verifHashBytes("keccak", 32, data)) }
func stub_c10_keccak(data ...[]byte) []byte {
	var all []byte
	for _, d := range data {
		all = append(all, d...)
	}
	return verifHashBytes("keccak", 32, all)
}
func stub_c10_encode(w io.Writer, val interface{}) error {
	_, err := w.Write(c10EncNode(val.(node)))
	return err
}
func stub_c10_encodetobytes(val interface{}) ([]byte, error) { return c10EncNode(val.(node)), nil }

func c10Head(base byte, n int) []byte {
	if n < 56 {
		return []byte{base + byte(n)}
	}
	if n < 256 {
		return []byte{base + 56, byte(n)}
	}
	return []byte{base + 57, byte(n >> 8), byte(n)}
}
func c10RlpString(b []byte) []byte {
	if len(b) == 1 && b[0] < 0x80 {
		return []byte{b[0]}
	}
	return append(c10Head(0x80, len(b)), b...)
}
func c10EncRef(n node) []byte {
	switch n := n.(type) {
	case nil:
		return []byte{0x80}
	case hashNode:
		return c10RlpString(n)
	case valueNode:
		return c10RlpString(n)
	default:
		return c10EncNode(n) // embedded node: its list encoding inline
	}
}
func c10EncNode(n node) []byte {
	switch n := n.(type) {
	case *shortNode:
		payload := append(c10RlpString(n.Key), c10EncRef(n.Val)...)
		return append(c10Head(0xC0, len(payload)), payload...)
	case *fullNode:
		var payload []byte
		for i := 0; i < 17; i++ {
			payload = append(payload, c10EncRef(n.Children[i])...)
		}
		return append(c10Head(0xC0, len(payload)), payload...)
	case hashNode:
		return c10RlpString(n)
	case valueNode:
		return c10RlpString(n)
	}
	return []byte{0x80}
}

// structural equality of two in-memory tries
func c10Equal(a, b node) bool {
	switch x := a.(type) {
	case nil:
		return b == nil
	case valueNode:
		y, ok := b.(valueNode)
		return ok && bytes.Equal(x, y)
	case hashNode:
		y, ok := b.(hashNode)
		return ok && bytes.Equal(x, y)
	case *shortNode:
		y, ok := b.(*shortNode)
		return ok && bytes.Equal(x.Key, y.Key) && c10Equal(x.Val, y.Val)
	case *fullNode:
		y, ok := b.(*fullNode)
		if !ok {
			return false
		}
		for i := 0; i < 17; i++ {
			if !c10Equal(x.Children[i], y.Children[i]) {
				return false
			}
		}
		return true
	}
	return false
}

// canonical form: no one-child branch, no short node directly under a short node, no empty key
func c10Canonical(n node) bool {
	switch x := n.(type) {
	case *shortNode:
		if len(x.Key) == 0 {
			return false
		}
		if _, isShort := x.Val.(*shortNode); isShort {
			return false
		}
		return c10Canonical(x.Val)
	case *fullNode:
		cnt := 0
		for i := 0; i < 17; i++ {
			if x.Children[i] != nil {
				cnt++
				if !c10Canonical(x.Children[i]) {
					return false
				}
			}
		}
		return cnt >= 2
	}
	return true
}

// keys of 1..2 bytes whose nibbles come from {0x0, 0x1, 0xF}: the trie code uses nibble values
// only as child indices and for equality, so three values cover every branching pattern of
// up to three keys; unrestricted nibbles multiply the case split 16-fold per level
func c10Nibble() byte {
	if verifThorough() {
		tab := [3]byte{0, 1, 15}
		return tab[verifNondetByte()%3]
	}
	return (verifNondetByte() & 1) * 15 // 0x0 or 0xF, without a case split
}

func c10Key() []byte {
	k := make([]byte, 1+verifCase(2))
	for i := range k {
		k[i] = c10Nibble()<<4 | c10Nibble()
	}
	return k
}
func c10Val() []byte {
	if verifNondetBool() {
		return verifNondetBytes(33) // long enough that nodes holding it are hashed, not embedded
	}
	v := verifNondetBytes(1)
	return v
}

// key codecs on all nibble strings <= 5 (with and without terminator) and byte strings <= 3
//verif:opt unwind=12 budget_s=600
func H_C10_key_codecs() {
	n := verifCase(6)
	hex := verifNondetBytes(n)
	for i := range hex {
		verifAssume(hex[i] < 16)
	}
	if verifNondetBool() {
		hex = append(hex, 16)
	}
	verifReach("codecs")
	back := compactToHex(hexToCompact(hex))
	verifAssert(bytes.Equal(back, hex), "compact-roundtrip")
	kb := verifNondetBytes(verifCase(4))
	hx := keybytesToHex(kb)
	verifAssert(len(hx) == 2*len(kb)+1 && hasTerm(hx), "keybytes-to-hex-shape")
	verifAssert(bytes.Equal(hexToKeybytes(hx), kb), "keybytes-roundtrip")
	a, b := verifNondetBytes(verifCase(4)), verifNondetBytes(verifCase(4))
	p := prefixLen(a, b)
	verifAssert(p <= len(a) && p <= len(b) && bytes.Equal(a[:p], b[:p]), "prefixlen-is-common-prefix")
	verifAssert(p == len(a) || p == len(b) || a[p] != b[p], "prefixlen-is-maximal")
}

// decodeNode on arbitrary bytes: an error or a node, never a crash
//verif:opt unwind=24 budget_s=900 split=12
func H_C10_decode_node_arbitrary_input() {
	maxLen := 5
	if verifThorough() {
		maxLen = 7
	}
	n := 1 + verifCase(maxLen)
	buf := verifNondetBytes(n)
	nd, err := decodeNode(nil, buf, 0)
	verifReach("decoded")
	if err == nil {
		verifReach("decoded-ok")
		verifAssert(nd != nil, "ok-means-node")
	}
}

// the same content inserted in either order gives the same structure and the same root; the
// structure is canonical; lookups return the last written values
//verif:opt unwind=24 budget_s=900 split=32
func H_C10_order_independence() {
	k1, k2 := c10Key(), c10Key()
	v1, v2 := c10Val(), c10Val()
	verifAssume(!bytes.Equal(k1, k2))
	a, b := &Trie{}, &Trie{}
	a.TryUpdate(k1, v1)
	a.TryUpdate(k2, v2)
	b.TryUpdate(k2, v2)
	b.TryUpdate(k1, v1)
	verifReach("built")
	verifAssert(c10Equal(a.root, b.root), "same-structure-any-order")
	verifAssert(c10Canonical(a.root), "canonical-form")
	g1, _ := a.TryGet(k1)
	g2, _ := a.TryGet(k2)
	verifAssert(bytes.Equal(g1, v1) && bytes.Equal(g2, v2), "get-returns-last-written")
	verifAssert(a.Hash() == b.Hash(), "same-root-any-order")
}

// a key that was not written is absent
//verif:opt unwind=24 budget_s=900 split=32
func H_C10_absent_key() {
	k1, k2 := c10Key(), c10Key()
	verifAssume(!bytes.Equal(k1, k2))
	a := &Trie{}
	a.TryUpdate(k1, verifNondetBytes(1))
	a.TryUpdate(k2, verifNondetBytes(1))
	other := c10Key()
	verifAssume(!bytes.Equal(other, k1) && !bytes.Equal(other, k2))
	g, err := a.TryGet(other)
	verifReach("looked-up")
	verifAssert(err == nil && g == nil, "get-absent-nil")
}

// overwrite, then delete (or update to empty): back to the trie that never had the key
//verif:opt unwind=24 budget_s=900 split=32
func H_C10_delete_inverts_insert() {
	k1, k2 := c10Key(), c10Key()
	verifAssume(!bytes.Equal(k1, k2))
	v1 := c10Val()
	one, a := &Trie{}, &Trie{}
	one.TryUpdate(k1, v1)
	a.TryUpdate(k1, v1)
	a.TryUpdate(k2, verifNondetBytes(1))
	a.TryUpdate(k2, verifNondetBytes(1)) // overwrite
	if verifNondetBool() {
		a.TryDelete(k2)
	} else {
		a.TryUpdate(k2, nil) // update-to-empty is delete
	}
	verifReach("deleted")
	verifAssert(c10Equal(a.root, one.root), "delete-inverts-insert")
	verifAssert(c10Canonical(a.root), "canonical-after-delete")
	a.TryDelete(k1)
	verifAssert(a.root == nil, "empty-after-deleting-all")
}

// tries are persistent structures: a copy (SecureTrie.Copy is a struct copy, the state layer takes one
// per snapshot) shares its nodes with the original, so whatever is written to either afterwards must
// leave the other exactly as it was - same structure, same lookups
//verif:opt unwind=24 budget_s=900 split=32
func H_C10_copied_trie_is_unaffected_by_later_writes() {
	k1, k2 := c10Key(), c10Key()
	verifAssume(!bytes.Equal(k1, k2))
	v1, v2 := c10Val(), c10Val()
	a, ref := &Trie{}, &Trie{}
	a.TryUpdate(k1, v1)
	a.TryUpdate(k2, v2)
	ref.TryUpdate(append([]byte(nil), k1...), v1)
	ref.TryUpdate(append([]byte(nil), k2...), v2)
	snap := *a
	switch verifCase(4) {
	case 0:
		a.TryDelete(k1)
	case 1:
		a.TryDelete(k2)
	case 2:
		a.TryUpdate(k1, verifNondetBytes(1))
	case 3:
		a.TryUpdate(c10Key(), verifNondetBytes(1))
	}
	verifReach("original-written-after-copy")
	verifAssert(c10Equal(snap.root, ref.root), "copy-keeps-its-structure")
	g1, _ := snap.TryGet(k1)
	g2, _ := snap.TryGet(k2)
	verifAssert(bytes.Equal(g1, v1) && bytes.Equal(g2, v2), "copy-keeps-its-values")
}

// Nodes that come back from the node database's memory cache (simplifyNode on the way in, expandNode
// on the way out - what a reopened trie resolves its hashes to before the cache is flushed) behave
// like the nodes that went in: same structure, and after any further insert or delete the trie built on
// them has the same root and structure as the trie that never left memory. (A reloaded node may carry
// a cached hash only if that hash is its own: embedded children have none.)
//verif:opt unwind=24 budget_s=900 split=32
func H_C10_nodes_reloaded_from_the_cache_rehash_like_the_originals() {
	k1, k2 := c10Key(), c10Key()
	verifAssume(!bytes.Equal(k1, k2))
	v1, v2 := verifNondetBytes(1), verifNondetBytes(1) // short values: small nodes are embedded in their parents
	a := &Trie{}
	a.TryUpdate(k1, v1)
	a.TryUpdate(k2, v2)
	root := a.Hash()
	// what Commit hands to the database for the root: its collapsed form (compact keys, small children
	// embedded - with one-byte values everything is embedded, so the reloaded trie is complete)
	h := newHasher(0, 0, nil)
	collapsed, _, err := h.hashChildren(a.root, nil)
	if err != nil {
		panic(err)
	}
	reloaded := expandNode(hashNode(root[:]), simplifyNode(collapsed), 0)
	b := &Trie{root: reloaded}
	verifReach("reloaded")
	verifAssert(c10Equal(a.root, b.root), "reloaded-node-has-the-structure-that-was-stored")
	verifAssert(b.Hash() == root, "reloaded-trie-has-the-stored-root")
	k3 := c10Key()
	if verifNondetBool() {
		v3 := verifNondetBytes(1)
		a.TryUpdate(k3, v3)
		b.TryUpdate(k3, v3)
	} else {
		a.TryDelete(k3)
		b.TryDelete(k3)
	}
	verifAssert(c10Equal(a.root, b.root), "reloaded-trie-updates-to-the-same-structure")
	verifAssert(a.Hash() == b.Hash(), "reloaded-trie-updates-to-the-same-root")
}

type c10ProofDB struct{ m map[string][]byte }

func (d *c10ProofDB) Put(key []byte, value []byte) error { d.m[string(key)] = value; return nil }
func (d *c10ProofDB) Load(key []byte) ([]byte, error)    { return d.m[string(key)], nil }
func (d *c10ProofDB) Exist(key []byte) (bool, error)     { _, ok := d.m[string(key)]; return ok, nil }

// a proof produced by Prove verifies to exactly the stored value (or to absence)
//verif:opt unwind=24 budget_s=1200 split=16
func H_C10_proof_roundtrip() {
	k1, k2 := c10Key(), c10Key()
	v1, v2 := c10Val(), c10Val()
	verifAssume(!bytes.Equal(k1, k2))
	t := &Trie{}
	t.TryUpdate(k1, v1)
	t.TryUpdate(k2, v2)
	root := t.Hash()
	var q []byte
	switch verifCase(3) {
	case 0:
		q = k1
	case 1:
		q = k2
	default:
		q = c10Key()
	}
	db := &c10ProofDB{m: map[string][]byte{}}
	verifAssert(t.Prove(q, 0, db) == nil, "prove-no-error")
	val, _, err := VerifyProof(root, q, db)
	verifReach("verified")
	want, _ := t.TryGet(q)
	verifAssert(err == nil, "genuine-proof-verifies")
	verifAssert(bytes.Equal(val, want) && (val == nil) == (want == nil), "proof-yields-the-stored-value-or-absence")
}
