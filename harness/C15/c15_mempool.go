//verif:pkg mempool
package mempool

import (
	"math/big"
	"time"

	cfg "github.com/lianxiangcloud/linkchain/config"
	"github.com/lianxiangcloud/linkchain/libs/clist"
	"github.com/lianxiangcloud/linkchain/libs/common"
	"github.com/lianxiangcloud/linkchain/libs/log"
	"github.com/lianxiangcloud/linkchain/types"
)

// C15 — what the pool offers after a block commit: committed transactions are gone, transactions
// that became executable are promoted, what is offered per sender is a gap-free nonce run starting at
// the committed nonce. The real Mempool.Update (filterTxs, recheckTxs, promoteExecutables),
// addGoodTx, addFutureTx, txList / txSortedMap (container/heap) and clist are executed against an
// application model (committed nonce per sender, CheckTx = exact-next-nonce rule). Transactions are a
// harness type behind the types.RegularTx interface (sender, nonce, identity byte).

//verif:noopiface github.com/go-kit/kit/metrics.Gauge

type c15Tx struct {
	types.RegularTx
	from  common.Address
	nonce uint64
	id    byte
	utxo  bool // an account-input UTXO-type transaction (it consumes the sender's account nonce like any other)
}

func (t *c15Tx) Hash() common.Hash             { return common.Hash{0x7A, t.from[0], byte(t.nonce), t.id} }
func (t *c15Tx) From() (common.Address, error) { return t.from, nil }
func (t *c15Tx) Nonce() uint64                 { return t.nonce }
func (t *c15Tx) TypeName() string {
	if t.utxo {
		return types.TxUTXO
	}
	return types.TxNormal
}
func (t *c15Tx) Gas() uint64                   { return 21000 }
func (t *c15Tx) GasPrice() *big.Int            { return big.NewInt(1) }
func (t *c15Tx) Value() *big.Int               { return big.NewInt(0) }

type c15App struct {
	committed map[common.Address]uint64 // next nonce of each sender in the committed state
	spec      map[common.Address]uint64 // next nonce in the speculative (check) state
}

func (a *c15App) GetNonce(addr common.Address) uint64     { return a.spec[addr] }
func (a *c15App) GetBalance(addr common.Address) *big.Int { return big.NewInt(1 << 40) }
func (a *c15App) CheckTx(tx types.Tx, checkType bool) error {
	from, _ := tx.From()
	n := tx.(*c15Tx).nonce
	if n < a.spec[from] {
		return types.ErrNonceTooLow
	}
	if n > a.spec[from] {
		return types.ErrNonceTooHigh
	}
	a.spec[from] = n + 1
	return nil
}

var (
	c15A = common.Address{0xA}
	c15B = common.Address{0xB}
	c15C = common.Address{0xC}
)

func c15Pool(app App, size int) *Mempool {
	return &Mempool{
		config:      &cfg.MempoolConfig{Size: size, FutureSize: 8, SpecSize: 2, AccountQueue: 8},
		app:         app,
		utxoTxs:     clist.New(),
		goodTxs:     clist.New(),
		specGoodTxs: clist.New(),
		futureTxs:   make(map[common.Address]*txList),
		beats:       make(map[common.Address]time.Time),
		cache:       nopTxCache{},
		metrics:     NopMetrics(),
		logger:      log.NewNopLogger(),
	}
}

func c15Good(mem *Mempool) []*c15Tx {
	var out []*c15Tx
	for e := mem.goodTxs.Front(); e != nil; e = e.Next() {
		out = append(out, e.Value.(*mempoolTx).tx.(*c15Tx))
	}
	return out
}

func c15InFuture(mem *Mempool, tx *c15Tx) bool {
	l := mem.futureTxs[tx.from]
	return l != nil && l.txs.Get(tx.nonce) != nil
}

//verif:opt unwind=16 budget_s=900 split=12
func H_C15_update_removes_committed_and_promotes_executables() {
	nA := 1 + verifCase(2) // sender A has nA good transactions: nonces 0..nA-1
	kCommitted := verifCase(nA + 1)
	app := &c15App{committed: map[common.Address]uint64{}, spec: map[common.Address]uint64{}}
	mem := c15Pool(app, 2+verifCase(2))
	var txsA []*c15Tx
	for i := 0; i < nA; i++ {
		tx := &c15Tx{from: c15A, nonce: uint64(i)}
		txsA = append(txsA, tx)
		if app.CheckTx(tx, StateCheck) != nil {
			panic("model")
		}
		mem.addGoodTx(tx, false)
	}
	// sender B: an executable transaction that was parked in the future queue (the pool was full,
	// or it was demoted by a re-check); optionally its successor as well
	bx := &c15Tx{from: c15B, nonce: 0}
	if mem.addFutureTx(bx) != nil {
		panic("model")
	}
	var bx1 *c15Tx
	if verifNondetBool() {
		bx1 = &c15Tx{from: c15B, nonce: 1}
		mem.addFutureTx(bx1)
	}
	// sender C: a transaction with a nonce gap - not executable
	cx := &c15Tx{from: c15C, nonce: 1 + uint64(verifCase(2))}
	mem.addFutureTx(cx)

	// a block commits the first kCommitted transactions of A: the application's committed and
	// speculative state are reset to the new committed state
	var block types.Txs
	for i := 0; i < kCommitted; i++ {
		block = append(block, txsA[i])
	}
	app.committed[c15A] = uint64(kCommitted)
	app.spec = map[common.Address]uint64{c15A: uint64(kCommitted)}
	mem.Update(7, block)
	verifReach("updated")

	good := c15Good(mem)
	room := mem.config.Size
	// 1. nothing committed is offered again, nothing twice
	for i, g := range good {
		verifAssert(!(g.from == c15A && g.nonce < uint64(kCommitted)), "committed-transaction-is-not-offered-again")
		for j := 0; j < i; j++ {
			verifAssert(good[j].Hash() != g.Hash(), "offered-transactions-are-pairwise-distinct")
		}
	}
	// 2. per sender: a gap-free run starting at the committed nonce, in order
	next := map[common.Address]uint64{c15A: uint64(kCommitted)}
	for _, g := range good {
		verifAssert(g.nonce == next[g.from], "offered-run-is-gap-free-from-the-committed-nonce")
		next[g.from] = g.nonce + 1
	}
	verifAssert(len(good) <= room, "pool-size-respected")
	// 3. promotion: B's executable transaction is offered if there was room for it
	survivorsA := 0
	for _, g := range good {
		if g.from == c15A {
			survivorsA++
		}
	}
	if survivorsA < room {
		verifAssert(next[c15B] >= 1, "executable-parked-transaction-is-promoted")
	}
	if next[c15B] == 0 {
		verifAssert(c15InFuture(mem, bx), "unpromoted-transaction-stays-queued")
	}
	// 4. the gapped transaction of C is neither offered nor lost
	verifAssert(next[c15C] == 0 && c15InFuture(mem, cx), "gapped-transaction-stays-queued")
}

// txSortedMap with arbitrary (symbolic) nonces: Ready returns exactly the maximal gap-free run
// starting at start and below end and drops what lies below start; Forward drops exactly the nonces
// below the threshold; the nonce heap and the item map stay in bijection.
//verif:opt unwind=16 budget_s=600 split=6
func H_C15_sorted_map_ready_and_forward() {
	n := 1 + verifCase(3)
	m := newTxSortedMap()
	nonces := make([]uint64, n)
	for i := 0; i < n; i++ {
		nonces[i] = uint64(verifNondetUint8())
		for j := 0; j < i; j++ {
			verifAssume(nonces[j] != nonces[i])
		}
		m.Put(&c15Tx{from: c15A, nonce: nonces[i]})
	}
	verifAssert(m.Len() == n && len(*m.index) == n, "heap-and-map-in-bijection-after-put")
	op := verifCase(2)
	if op == 0 {
		start := uint64(verifNondetUint8())
		end := uint64(verifNondetUint8())
		verifAssume(start <= end)
		ready := m.Ready(start, end)
		verifReach("ready")
		// reference: the run start, start+1, ... as long as present and below end
		want := 0
		for k := start; k < end; k++ {
			found := false
			for _, x := range nonces {
				if x == k {
					found = true
				}
			}
			if !found {
				break
			}
			want++
		}
		verifAssert(len(ready) == want, "ready-is-the-maximal-gap-free-run")
		for i, tx := range ready {
			verifAssert(tx.Nonce() == start+uint64(i), "ready-is-in-nonce-order")
		}
		for _, x := range nonces {
			gone := m.Get(x) == nil
			verifAssert(gone == (x < start+uint64(want)), "ready-removes-the-run-and-everything-below-start")
		}
	} else {
		t := uint64(verifNondetUint8())
		removed := m.Forward(t)
		verifReach("forwarded")
		cnt := 0
		for _, x := range nonces {
			if x < t {
				cnt++
			}
			verifAssert((m.Get(x) == nil) == (x < t), "forward-removes-exactly-the-lower-nonces")
		}
		verifAssert(len(removed) == cnt, "forward-returns-what-it-removed")
	}
	verifAssert(m.Len() == len(*m.index), "heap-and-map-in-bijection")
}


// What Reap offers for the next block is a PREFIX of the executable list: the list is kept gap-free per
// sender from the committed nonce on (the Update harness above), so any prefix is; leaving a
// transaction out and offering later ones of the same sender would put a nonce gap into the block.
// Real code: Reap / collectTxs over a clist of four executables of one sender (nonces 0..3), each an
// ordinary or an account-input UTXO-type transaction, with arbitrary block size and UTXO quota.
//verif:opt unwind=16 budget_s=600 thorough.budget_s=2400 split=8 thorough.split=16
func H_C15_reap_offers_a_prefix_of_the_executables() {
	app := &c15App{committed: map[common.Address]uint64{}, spec: map[common.Address]uint64{}}
	mem := c15Pool(app, 8)
	n := 4
	if verifThorough() {
		n = 6
	}
	var all []*c15Tx
	for i := 0; i < n; i++ {
		tx := &c15Tx{from: c15A, nonce: uint64(i), id: byte(i), utxo: verifNondetBool()}
		all = append(all, tx)
		mem.goodTxs.PushBack(&mempoolTx{tx: tx})
	}
	mem.config.MaxReapSize = 1 + verifCase(5)
	mem.config.UTXOSize = 1 + verifCase(3)
	mem.config.SpecSize = 2
	max := verifCase(7) - 1 // -1 .. 5
	got := mem.Reap(max)
	verifReach("reaped")
	verifAssert(len(got) <= n, "reap-offers-nothing-twice")
	if max > 0 {
		verifAssert(len(got) <= max && len(got) <= mem.config.MaxReapSize, "reap-respects-the-block-size")
	} else {
		verifAssert(len(got) == 0, "reap-of-nothing-offers-nothing")
	}
	for i, tx := range got {
		verifAssert(tx.(*c15Tx) == all[i], "reap-offers-a-prefix-of-the-executables")
	}
}
