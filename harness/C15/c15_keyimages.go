//verif:pkg mempool
package mempool

import (
	"math/big"

	"github.com/lianxiangcloud/linkchain/libs/common"
	lktypes "github.com/lianxiangcloud/linkchain/libs/cryptonote/types"
	"github.com/lianxiangcloud/linkchain/types"
)

// C15 / C07 (mempool <-> chain boundary for confidential spends) — at every moment the pending
// confidential transactions the pool would offer share no key image with each other or with the
// chain's spent set, over ANY short history of submissions and block commits. The real
// Mempool.addUTXOTx / addPureUtxoTx, KeyImageExists / KeyImagePush / KeyImageReset /
// KeyImageRemoveKeys, Update (filterTxs, recheckUtxoTxs, ...) and Reap run against an application
// model whose StateCheck does exactly what UTXOTransaction.checkState does about key images: refuse a
// transaction one of whose images is in the chain's spent set or in the pool's image cache, otherwise
// push all its images. A commit is what LinkApplication.CommitBlock does with the pool: Lock,
// KeyImageReset, Update(height, block), Unlock - after the block's images joined the spent set.

// The transactions are real *types.UTXOTransaction values with UTXO inputs only (the pool's code
// type-switches on the concrete type); their hash (reflective encoder) and sender (signature recovery:
// none, a pure confidential spend has no account sender) are stubs.

//verif:noopiface github.com/go-kit/kit/metrics.Gauge
//verif:filestub (*github.com/lianxiangcloud/linkchain/types.UTXOTransaction).Hash => stub_c15k_hash
//verif:filestub (*github.com/lianxiangcloud/linkchain/types.UTXOTransaction).From => stub_c15k_from

func stub_c15k_hash(tx *types.UTXOTransaction) common.Hash { return common.Hash{0x7B, tx.Extra[0]} }
func stub_c15k_from(tx *types.UTXOTransaction) (common.Address, error) {
	return common.EmptyAddress, nil
}

func c15kImages(tx *types.UTXOTransaction) []lktypes.Key {
	var out []lktypes.Key
	for _, k := range tx.GetInputKeyImages() {
		out = append(out, *k)
	}
	return out
}

type c15kApp struct {
	mem   *Mempool
	spent map[lktypes.Key]bool
}

func (a *c15kApp) GetNonce(addr common.Address) uint64     { return 0 }
func (a *c15kApp) GetBalance(addr common.Address) *big.Int { return big.NewInt(1 << 40) }
func (a *c15kApp) CheckTx(tx types.Tx, checkType bool) error {
	t, ok := tx.(*types.UTXOTransaction)
	if !ok {
		return nil
	}
	for _, k := range c15kImages(t) {
		if a.spent[k] || a.mem.KeyImageExists(k) {
			return types.ErrUtxoTxDoubleSpend
		}
	}
	for _, k := range c15kImages(t) {
		a.mem.KeyImagePush(k)
	}
	return nil
}

func c15kPending(mem *Mempool) []*types.UTXOTransaction {
	var out []*types.UTXOTransaction
	for e := mem.utxoTxs.Front(); e != nil; e = e.Next() {
		out = append(out, e.Value.(*mempoolTx).tx.(*types.UTXOTransaction))
	}
	return out
}

func c15kCheck(mem *Mempool, app *c15kApp, label string) {
	p := c15kPending(mem)
	for i := range p {
		for _, k := range c15kImages(p[i]) {
			verifAssert(!app.spent[k], label+"-no-pending-spend-of-a-committed-image")
			for j := i + 1; j < len(p); j++ {
				for _, k2 := range c15kImages(p[j]) {
					verifAssert(k != k2, label+"-no-two-pending-transactions-share-a-key-image")
				}
			}
		}
	}
}

//verif:opt unwind=24 budget_s=900 split=16 thorough.split=48
func H_C15_pending_confidential_spends_never_share_a_key_image() {
	app := &c15kApp{spent: map[lktypes.Key]bool{}}
	mem := c15Pool(nil, 4)
	mem.config.UTXOSize = 4
	mem.kImageCache = map[lktypes.Key]struct{}{}
	mem.app = app
	app.mem = mem
	steps := 4
	if verifThorough() {
		steps = 5
	}
	next := byte(1)
	for s := 0; s < steps; s++ {
		switch verifCase(3) {
		case 0: // a confidential transaction spending K1, K2 or both is submitted
			tx := &types.UTXOTransaction{Extra: []byte{next}, Fee: new(big.Int)}
			next++
			// one or two inputs with ARBITRARY key images (the solver picks which of them coincide with
			// images already pending or spent)
			k1 := lktypes.Key{verifNondetByte()}
			tx.Inputs = []types.Input{&types.UTXOInput{KeyImage: k1}}
			if verifNondetBool() {
				k2 := lktypes.Key{verifNondetByte()}
				verifAssume(k1 != k2) // checkTxSemantic refuses a repeated image (BasicCheck)
				tx.Inputs = append(tx.Inputs, &types.UTXOInput{KeyImage: k2})
			}
			mem.addUTXOTx(tx)
		case 1: // a block without confidential transactions is committed
			mem.Lock()
			mem.KeyImageReset()
			mem.Update(uint64(10+s), types.Txs{&c15Tx{from: c15A, nonce: uint64(s), id: 0xEE}})
			mem.Unlock()
		case 2: // a block with the oldest pending confidential transaction is committed
			p := c15kPending(mem)
			var block types.Txs
			if len(p) > 0 {
				block = append(block, p[0])
				for _, k := range c15kImages(p[0]) {
					app.spent[k] = true
				}
			}
			mem.Lock()
			mem.KeyImageReset()
			mem.Update(uint64(10+s), block)
			mem.Unlock()
		}
		c15kCheck(mem, app, "after-every-step")
	}
	verifReach("history-ran")
	// what Reap offers is what is pending
	offered := mem.Reap(10)
	seen := map[lktypes.Key]bool{}
	for _, tx := range offered {
		if t, ok := tx.(*types.UTXOTransaction); ok {
			for _, k := range c15kImages(t) {
				verifAssert(!seen[k] && !app.spent[k], "offered-transactions-share-no-key-image-and-spend-nothing-committed")
				seen[k] = true
			}
		}
	}
}
