//verif:pkg consensus
package consensus

import (
	"hash/crc32"
)

// C16 (the log in front of the state machine) — receiveRoutine writes every peer message to the WAL
// BEFORE handleMsg looks at it, and baseWAL.Write panics on an encoding error: whatever the reactor
// admits (messages up to its 1 MiB channel limit, wrapped into a record with peer id, time and type
// prefixes) the record encoder must accept, or one large message from one peer stops the consensus
// routine.
//
// Real code: WALEncoder.Encode. The message encoder is cut to "a payload of the given length"; CRC is a
// constant (its value is irrelevant here). Lengths are boundary values around the 1 MiB limit.

//verif:filestub github.com/lianxiangcloud/linkchain/libs/ser.MustEncodeToBytes => stub_c16w_encode
//verif:filestub hash/crc32.Checksum => stub_c16w_crc

var c16wLen int

func stub_c16w_encode(v interface{}) []byte                    { return make([]byte, c16wLen) }
func stub_c16w_crc(data []byte, tab *crc32.Table) uint32       { return 0x1234 }

type c16wSink struct{ n int }

func (s *c16wSink) Write(p []byte) (int, error) { s.n += len(p); return len(p), nil }

//verif:opt unwind=8 budget_s=600 max_alloc=4194304
func H_C16_every_admissible_peer_message_can_be_logged() {
	// the reactor's limit is 1 MiB for the message; the record adds the peer id, a timestamp and type prefixes
	sizes := []int{1, 1<<20 - 1, 1 << 20, 1<<20 + 256}
	c16wLen = sizes[verifCase(len(sizes))]
	sink := &c16wSink{}
	err := NewWALEncoder(sink).Encode(&TimedWALMessage{})
	verifReach("encoded")
	verifAssert(err == nil, "record-of-an-admissible-peer-message-is-written")
	verifAssert(sink.n == c16wLen+8, "record-is-header-plus-payload")
}
