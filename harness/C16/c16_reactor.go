//verif:pkg consensus
package consensus

import (
	cstypes "github.com/lianxiangcloud/linkchain/consensus/types"
	cmn "github.com/lianxiangcloud/linkchain/libs/common"
	"github.com/lianxiangcloud/linkchain/libs/log"
	"github.com/lianxiangcloud/linkchain/libs/p2p"
	"github.com/lianxiangcloud/linkchain/types"
)

// C16 (reactor side) — ConsensusReactor.Receive on an arbitrary decodable state/data/vote-set-bits
// message, followed by one iteration of what the per-peer gossip goroutines compute from the peer
// state. Receive itself runs under the connection's recover (a failure there drops the peer, which
// the property allows); gossipDataRoutine / gossipVotesRoutine are NOT recovered, so any run-time
// failure in them takes the whole process down: that is the violation.
//
// Bit arrays inside messages are decoded field by field: Bits and len(Elems) are independent
// symbolic values here.
//
// Cuts: the decoder is a stub that yields the symbolic message (decoding itself is C11); sends are
// no-ops; messages that are queued for the consensus routine (Proposal/BlockPart/Vote) are covered
// by c16_consensus.go.

//verif:filestub github.com/lianxiangcloud/linkchain/libs/ser.DecodeBytesWithType => stub_c16r_decode
//verif:filestub github.com/lianxiangcloud/linkchain/libs/ser.MustEncodeToBytesWithType => stub_c16r_encode
//verif:filestub (*github.com/lianxiangcloud/linkchain/libs/common.BaseService).IsRunning => stub_c16r_running
//verif:filestub github.com/lianxiangcloud/linkchain/libs/common.RandIntn => stub_c16r_randintn
//verif:filestub (github.com/lianxiangcloud/linkchain/types.BlockID).Key => stub_c16_blockkey
//verif:filestub (github.com/lianxiangcloud/linkchain/libs/crypto.PubKeyEd25519).Address => stub_c16_address

var c16rMsg ConsensusMessage

func stub_c16r_decode(bz []byte, ptr interface{}) error {
	*(ptr.(*ConsensusMessage)) = c16rMsg
	return nil
}
func stub_c16r_encode(o interface{}) []byte          { return []byte{1} }
func stub_c16r_running(bs *cmn.BaseService) bool     { return true }
func stub_c16r_randintn(n int) int {
	x := verifNondetInt()
	verifAssume(x >= 0)
	verifAssume(x < n)
	return x
}

type c16rPeer struct {
	p2p.Peer
	ps *PeerState
}

func (p *c16rPeer) ID() string                         { return "peer1" }
func (p *c16rPeer) IsRunning() bool                    { return true }
func (p *c16rPeer) Get(key string) interface{}         { return p.ps }
func (p *c16rPeer) Set(key string, data interface{})   {}
func (p *c16rPeer) Send(chID byte, msg []byte) bool    { return true }
func (p *c16rPeer) TrySend(chID byte, msg []byte) bool { return true }
func (p *c16rPeer) String() string                     { return "peer1" }

type c16rSwitch struct {
	p2p.P2PManager
	stopped int
}

func (s *c16rSwitch) StopPeerForError(peer p2p.Peer, reason interface{}) { s.stopped++ }

func c16rBitArray() *cmn.BitArray {
	if verifNondetBool() {
		return nil
	}
	b := &cmn.BitArray{Bits: verifNondetInt(), Elems: make([]uint64, verifCase(3))}
	for i := range b.Elems {
		b.Elems[i] = verifNondetUint64()
	}
	return b
}

func c16rConsistent(b *cmn.BitArray) bool {
	return b == nil || (b.Bits >= 0 && len(b.Elems) == (b.Bits+63)/64)
}

// c16rReceive delivers the message as the connection does: a panic inside Receive is recovered
// there and costs the peer its connection
func c16rReceive(conR *ConsensusReactor, chID byte, src p2p.Peer) (panicked bool) {
	defer func() {
		if r := recover(); r != nil {
			panicked = true
		}
	}()
	conR.Receive(chID, src, []byte{1})
	return false
}

//verif:opt unwind=70 budget_s=900 split=32
func H_C16_gossip_survives_peer_bitarrays() {
	cs := c16State(1 + 8) // height 5, proposal accepted, parts awaited
	cs.Logger = log.NewNopLogger()
	sw := &c16rSwitch{}
	conR := &ConsensusReactor{sw: sw, conS: cs, started: true}
	conR.BaseReactor = *p2p.NewBaseReactor("ConsensusReactor", conR)
	conR.Logger = log.NewNopLogger()
	peer := &c16rPeer{}
	ps := NewPeerState(peer).SetLogger(log.NewNopLogger())
	peer.ps = ps
	// the peer is at our height and round (what NewRoundStep messages of its own establish)
	ps.PRS.Height = cs.Height
	ps.PRS.Round = cs.Round
	ps.PRS.Step = cstypes.RoundStepPrevote
	ps.PRS.ProposalPOLRound = 0
	ps.PRS.ProposalBlockPartsHeader = cs.ProposalBlockParts.Header()

	var chID byte
	switch verifCase(4) {
	case 0:
		chID = StateChannel
		c16rMsg = &CommitStepMessage{Height: cs.Height, BlockPartsHeader: cs.ProposalBlockParts.Header(), BlockParts: c16rBitArray()}
	case 1:
		chID = DataChannel
		c16rMsg = &ProposalPOLMessage{Height: cs.Height, ProposalPOLRound: 0, ProposalPOL: c16rBitArray()}
	case 2:
		chID = VoteSetBitsChannel
		ps.EnsureVoteBitArrays(cs.Height, cs.Validators.Size())
		h := cs.Height
		if verifNondetBool() {
			h = cs.Height - 1 // "ourVotes == nil": the peer's claim is taken over as it stands
		}
		c16rMsg = &VoteSetBitsMessage{Height: h, Round: cs.Round, Type: types.VoteTypePrevote, BlockID: c16BlockID(), Votes: c16rBitArray()}
	case 3:
		chID = StateChannel
		ps.EnsureVoteBitArrays(cs.Height, cs.Validators.Size())
		c16rMsg = &HasVoteMessage{Height: cs.Height, Round: cs.Round, Type: types.VoteTypePrevote, Index: verifNondetInt()}
	}
	dropped := c16rReceive(conR, chID, peer)
	verifReach("received")
	if dropped {
		return
	}

	// one iteration of gossipDataRoutine's part selection (reactor.go, "Send proposal Block parts?")
	rs := cs.GetRoundState()
	prs := ps.GetRoundState()
	if rs.ProposalBlockParts.HasHeader(prs.ProposalBlockPartsHeader) {
		if index, ok := rs.ProposalBlockParts.BitArray().Sub(prs.ProposalBlockParts.Copy()).PickRandom(); ok {
			rs.ProposalBlockParts.GetPart(index)
			ps.SetHasProposalBlockPart(prs.Height, prs.Round, index)
		}
	}
	// one iteration of gossipVotesRoutine's vote selection for the current round and the POL round
	ps.PickVoteToSend(rs.Votes.Prevotes(rs.Round))
	ps.PickVoteToSend(rs.Votes.Precommits(rs.Round))
	if prs.ProposalPOLRound != -1 {
		if polPrevotes := rs.Votes.Prevotes(prs.ProposalPOLRound); polPrevotes != nil {
			ps.PickVoteToSend(polPrevotes)
		}
	}
	verifReach("gossip-iteration-done")

	// the invariant the gossip side relies on (H_C16_gossip_bitarray_operations_total assumes it)
	verifAssert(c16rConsistent(ps.PRS.ProposalBlockParts) && c16rConsistent(ps.PRS.ProposalPOL) &&
		c16rConsistent(ps.PRS.Prevotes) && c16rConsistent(ps.PRS.Precommits) &&
		c16rConsistent(ps.PRS.LastCommit) && c16rConsistent(ps.PRS.CatchupCommit), "peer-state-bitarrays-consistent")
}
