//verif:pkg consensus
package consensus

import (
	cstypes "github.com/lianxiangcloud/linkchain/consensus/types"
	"github.com/lianxiangcloud/linkchain/libs/log"
	"github.com/lianxiangcloud/linkchain/libs/p2p"
)

// C16 (reactor -> state machine: missing components) - the decoder returns a nil pointer for an empty
// pointer field, so a peer can send a block part message without a part, a proposal message without a
// proposal, a vote message without a vote. The state machine's handlers never nil-check these (they
// rely on the reactor): whatever the peer has announced about its own height and round, the real
// Receive must not queue such a message for the consensus routine - it may drop the peer (a panic
// inside Receive is recovered per connection), nothing else.

//verif:filestub github.com/lianxiangcloud/linkchain/libs/ser.DecodeBytesWithType => stub_c16r_decode
//verif:filestub github.com/lianxiangcloud/linkchain/libs/ser.MustEncodeToBytesWithType => stub_c16r_encode
//verif:filestub (*github.com/lianxiangcloud/linkchain/libs/common.BaseService).IsRunning => stub_c16r_running

//verif:opt unwind=70 budget_s=600
func H_C16_messages_with_a_missing_component_never_reach_the_consensus_routine() {
	cs := c16State(1 + 8*verifCase(2)) // height 5; no proposal yet, or proposal accepted and parts awaited
	cs.Logger = log.NewNopLogger()
	cs.peerMsgQueue = make(chan msgInfo, 4) // the queue the consensus routine reads
	sw := &c16rSwitch{}
	conR := &ConsensusReactor{sw: sw, conS: cs, started: true}
	conR.BaseReactor = *p2p.NewBaseReactor("ConsensusReactor", conR)
	conR.Logger = log.NewNopLogger()
	peer := &c16rPeer{}
	ps := NewPeerState(peer).SetLogger(log.NewNopLogger())
	peer.ps = ps
	// what the peer announced about itself: nothing yet, our height and round, or something else
	switch verifCase(3) {
	case 1:
		ps.PRS.Height, ps.PRS.Round, ps.PRS.Step = cs.Height, cs.Round, cstypes.RoundStepPropose
	case 2:
		ps.PRS.Height, ps.PRS.Round, ps.PRS.Step = cs.Height+1, 3, cstypes.RoundStepPrevote
	}
	var chID byte
	switch verifCase(3) {
	case 0:
		chID = DataChannel
		c16rMsg = &BlockPartMessage{Height: cs.Height, Round: cs.Round}
	case 1:
		chID = DataChannel
		c16rMsg = &ProposalMessage{}
	case 2:
		chID = VoteChannel
		c16rMsg = &VoteMessage{}
	}
	before := len(cs.peerMsgQueue)
	dropped := c16rReceive(conR, chID, peer)
	verifReach("received")
	if dropped {
		verifReach("peer-dropped")
	}
	verifAssert(len(cs.peerMsgQueue) == before, "message-with-a-missing-component-is-not-queued-for-the-consensus-routine")
}
