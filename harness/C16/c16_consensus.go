//verif:pkg consensus
package consensus

import (
	"encoding/binary"
	"io"
	"time"

	cfg "github.com/lianxiangcloud/linkchain/config"
	cstypes "github.com/lianxiangcloud/linkchain/consensus/types"
	"github.com/lianxiangcloud/linkchain/libs/common"
	"github.com/lianxiangcloud/linkchain/libs/crypto"
	"github.com/lianxiangcloud/linkchain/libs/crypto/merkle"
	tmevents "github.com/lianxiangcloud/linkchain/libs/events"
	"github.com/lianxiangcloud/linkchain/libs/log"
	"github.com/lianxiangcloud/linkchain/types"
)

// C16 (consensus side) — ConsensusState.handleMsg on an arbitrary decodable peer message in an
// abstract round state. receiveRoutine recovers any panic, logs CONSENSUS FAILURE and returns, so a
// panic escaping handleMsg halts the node's consensus: it is the violation.
//
// Cuts (outside the claim, listed in the evidence): the step transitions the handlers trigger
// (enterNewRound/enterPrevote/enterPrevoteWait/enterPrecommit/enterPrecommitWait/enterCommit/
// tryFinalizeCommit) are recording stubs - what they do is C01/C02; decoding of a completed block
// (ser.DecodeReader, reflective) returns an error or an arbitrary small block; event publication is
// a no-op; signatures are an uninterpreted predicate.

//verif:noop (*github.com/lianxiangcloud/linkchain/types.EventBus).Publish
//verif:noopiface github.com/lianxiangcloud/linkchain/libs/events.EventSwitch
//verif:filestub (*github.com/lianxiangcloud/linkchain/consensus.ConsensusState).enterNewRound => stub_c16_enter2
//verif:filestub (*github.com/lianxiangcloud/linkchain/consensus.ConsensusState).enterPrevote => stub_c16_enter2
//verif:filestub (*github.com/lianxiangcloud/linkchain/consensus.ConsensusState).enterPrevoteWait => stub_c16_enter2
//verif:filestub (*github.com/lianxiangcloud/linkchain/consensus.ConsensusState).enterPrecommit => stub_c16_enter2
//verif:filestub (*github.com/lianxiangcloud/linkchain/consensus.ConsensusState).enterPrecommitWait => stub_c16_enter2
//verif:filestub (*github.com/lianxiangcloud/linkchain/consensus.ConsensusState).enterCommit => stub_c16_enter2
//verif:filestub (*github.com/lianxiangcloud/linkchain/consensus.ConsensusState).tryFinalizeCommit => stub_c16_enter1
//verif:filestub github.com/lianxiangcloud/linkchain/libs/ser.DecodeReader => stub_c16_decodereader
//verif:filestub github.com/lianxiangcloud/linkchain/libs/ser.MarshalJSON => stub_c16_marshaljson
//verif:filestub github.com/lianxiangcloud/linkchain/libs/ser.EncodeToBytes => stub_c16_encodetobytes
//verif:filestub github.com/lianxiangcloud/linkchain/types.CanonicalTime => stub_c16_ctime
//verif:filestub (github.com/lianxiangcloud/linkchain/types.BlockID).Key => stub_c16_blockkey
//verif:filestub (github.com/lianxiangcloud/linkchain/libs/crypto.PubKeyEd25519).VerifyBytes => stub_c16_verify
//verif:filestub (github.com/lianxiangcloud/linkchain/libs/crypto.PubKeyEd25519).Address => stub_c16_address
//verif:filestub (github.com/lianxiangcloud/linkchain/libs/crypto.SignatureEd25519).Equals => stub_c16_sigequals
//verif:filestub github.com/lianxiangcloud/linkchain/libs/crypto/merkle.SimpleHashFromTwoHashes => stub_c16_h2
//verif:filestub github.com/lianxiangcloud/linkchain/libs/crypto.Keccak256 => stub_c16_keccak
//verif:filestub (*github.com/lianxiangcloud/linkchain/types.Block).Hash => stub_c16_blockhash

var c16Transitions int

func stub_c16_enter2(cs *ConsensusState, height uint64, round int) { c16Transitions++ }
func stub_c16_enter1(cs *ConsensusState, height uint64)            { c16Transitions++ }

var c16Decoded *types.Block

func stub_c16_decodereader(r io.Reader, val interface{}, maxSize int64) (int64, error) {
	if c16Decoded == nil {
		return 0, io.ErrUnexpectedEOF
	}
	*(val.(**types.Block)) = c16Decoded
	return 1, nil
}
func stub_c16_marshaljson(o interface{}) ([]byte, error)   { return verifHashBytes("json", 32, o), nil }
func stub_c16_encodetobytes(o interface{}) ([]byte, error) { return verifHashBytes("enc", 32, o), nil }
func stub_c16_ctime(t time.Time) string                    { return "T" }
func stub_c16_blockkey(b types.BlockID) string {
	var tot [8]byte
	binary.BigEndian.PutUint64(tot[:], uint64(b.PartsHeader.Total))
	return string(b.Hash[:]) + string(tot[:]) + string(b.PartsHeader.Hash)
}
func stub_c16_verify(pk crypto.PubKeyEd25519, msg []byte, sig crypto.Signature) bool {
	s, ok := sig.(crypto.SignatureEd25519)
	if !ok {
		return false
	}
	return verifUFBool("sigok", pk, msg, s)
}
func stub_c16_address(pk crypto.PubKeyEd25519) crypto.Address { return crypto.Address{pk[0], pk[1]} }
func stub_c16_sigequals(sig crypto.SignatureEd25519, other crypto.Signature) bool {
	o, ok := other.(crypto.SignatureEd25519)
	return ok && o == sig
}
func stub_c16_h2(left, right []byte) []byte  { return verifHashBytes("h2", 32, left, right) }
func stub_c16_keccak(data ...[]byte) []byte   { return verifHashBytes("keccak", 32, data) }
func stub_c16_blockhash(b *types.Block) common.Hash {
	if b == nil {
		return common.Hash{}
	}
	return common.Hash{0xBB, byte(b.Height)}
}

type c16Evpool struct{}

func (c16Evpool) PendingEvidence() []types.Evidence     { return nil }
func (c16Evpool) AddEvidence(types.Evidence) error      { return nil }
func (c16Evpool) Update(*types.Block, NewStatus)        {}

type c16PV struct{}

func (c16PV) GetAddress() crypto.Address                                 { return crypto.Address{0xEE, 0xEE} }
func (c16PV) GetPubKey() crypto.PubKey                                   { return crypto.PubKeyEd25519{0xEE, 0xEE} }
func (c16PV) UpdatePrikey(priv crypto.PrivKey)                           {}
func (c16PV) GetPrikey() crypto.PrivKey                                  { return nil }
func (c16PV) SignData(data []byte) ([]byte, error)                       { return nil, nil }
func (c16PV) SignVote(chainID string, vote *types.Vote) error            { return nil }
func (c16PV) SignVoteWithoutSave(chainID string, vote *types.Vote) error { return nil }
func (c16PV) SignProposal(chainID string, p *types.Proposal) error       { return nil }
func (c16PV) SignHeartbeat(chainID string, h *types.Heartbeat) error     { return nil }

func c16PubKey(i int) crypto.PubKeyEd25519 { return crypto.PubKeyEd25519{byte(i + 1), 0x55} }

func c16Sig() crypto.Signature {
	var s crypto.SignatureEd25519
	copy(s[:], verifNondetBytes(64))
	return s
}

func c16BlockID() types.BlockID {
	switch verifCase(3) {
	case 0:
		return types.BlockID{Hash: common.Hash{0xB1}, PartsHeader: types.PartSetHeader{Total: 1, Hash: []byte{0xA1}}}
	case 1:
		return types.BlockID{Hash: common.Hash{0xB2}, PartsHeader: types.PartSetHeader{Total: 2, Hash: []byte{0xA2}}}
	}
	return types.BlockID{}
}

// c16State builds a consensus state at an arbitrary point of a height: height 1 (no LastCommit) or
// later, any step, proposal/parts present or not.
func c16State(sel int) *ConsensusState {
	n := 2
	vals := make([]*types.Validator, n)
	for i := 0; i < n; i++ {
		pk := c16PubKey(i)
		vals[i] = &types.Validator{Address: pk.Address(), PubKey: pk, VotingPower: 1}
	}
	vs := &types.ValidatorSet{Validators: vals}
	vs.Proposer = vals[0]
	cs := &ConsensusState{}
	cs.Logger = log.Root()
	cs.config = &cfg.ConsensusConfig{}
	cs.privValidator = c16PV{}
	cs.evpool = c16Evpool{}
	if verifSymbolic() {
		cs.eventBus = nil // publication modelled as a no-op
		cs.evsw = nil
	} else {
		bus := types.NewEventBus()
		bus.Start()
		cs.eventBus = bus
		cs.evsw = tmevents.NewEventSwitch()
	}
	cs.setProposal = cs.defaultSetProposal
	cs.status = NewStatus{ChainID: "chain-A"}
	cs.status.ConsensusParams.BlockSize.MaxBytes = 1 << 20
	// large parts, so that only a handful of part counts is admissible (keeps the part set small)
	cs.status.ConsensusParams.BlockGossip.BlockPartSizeBytes = types.MaxBlockSizeBytes / 2
	firstHeight := sel%2 == 0
	if firstHeight {
		cs.Height = 1
	} else {
		cs.Height = 5
		lastVals := &types.ValidatorSet{Validators: vals}
		cs.LastCommit = types.NewVoteSet("chain-A", 4, 0, types.VoteTypePrecommit, lastVals)
	}
	cs.Round = verifCase(2)
	switch (sel / 2) % 4 {
	case 0:
		cs.Step = cstypes.RoundStepNewHeight
	case 1:
		cs.Step = cstypes.RoundStepPropose
	case 2:
		cs.Step = cstypes.RoundStepPrevote
	case 3:
		cs.Step = cstypes.RoundStepCommit
	}
	cs.Validators = vs
	cs.Votes = cstypes.NewHeightVoteSet("chain-A", cs.Height, vs)
	cs.Votes.SetRound(cs.Round + 1) // as enterNewRound leaves it
	cs.LockedRound, cs.ValidRound = 0, 0
	if (sel/8)%2 == 1 {
		// a proposal was accepted and parts are awaited
		hdr := types.PartSetHeader{Total: 1 + verifCase(2), Hash: verifNondetBytes(32)}
		cs.Proposal = &types.Proposal{Height: cs.Height, Round: cs.Round, BlockPartsHeader: hdr, POLRound: -1}
		cs.ProposalBlockParts = types.NewPartSetFromHeader(hdr)
	}
	c16Transitions = 0
	return cs
}

type c16Snapshot struct {
	height        uint64
	round         int
	step          cstypes.RoundStepType
	lockedRound   int
	validRound    int
	proposal      *types.Proposal
	parts         *types.PartSet
	block         *types.Block
	votesRound    int
	partsCount    int
	lockedBlock   *types.Block
	validBlock    *types.Block
}

func c16Snap(cs *ConsensusState) c16Snapshot {
	s := c16Snapshot{cs.Height, cs.Round, cs.Step, cs.LockedRound, cs.ValidRound, cs.Proposal, cs.ProposalBlockParts,
		cs.ProposalBlock, cs.Votes.Round(), 0, cs.LockedBlock, cs.ValidBlock}
	if cs.ProposalBlockParts != nil {
		s.partsCount = cs.ProposalBlockParts.Count()
	}
	return s
}

// after any single peer message the node can still move to its next round: the vote bookkeeping
// still tracks exactly rounds 0..Round+1 (enterNewRound calls Votes.SetRound(round+1), which
// panics unless it increases the tracked round)
func c16StillLive(cs *ConsensusState, before c16Snapshot) {
	verifAssert(cs.Height == before.height && cs.Round == before.round && cs.Step == before.step, "message-does-not-move-height-round-step")
	verifAssert(cs.Votes.Round() == before.votesRound, "peer-message-does-not-move-tracked-round")
	cs.Votes.SetRound(cs.Round + 2) // what the next enterNewRound does
	verifReach("next-round-possible")
}

//verif:opt unwind=12 budget_s=900 split=32
func H_C16_handle_blockpart_message() {
	sel := verifCase(16)
	cs := c16State(sel)
	before := c16Snap(cs)
	naunts := verifCase(2)
	aunts := make([][]byte, naunts)
	for i := range aunts {
		aunts[i] = verifNondetBytes(32)
	}
	part := &types.Part{Index: verifNondetInt(), Bytes: verifNondetBytes(verifCase(2)), Proof: merkle.SimpleProof{Aunts: aunts}}
	if verifNondetBool() {
		c16Decoded = &types.Block{Header: &types.Header{Height: verifNondetUint64(), Recover: uint32(verifCase(2))}, Data: &types.Data{}}
	} else {
		c16Decoded = nil
	}
	msg := &BlockPartMessage{Height: verifNondetUint64(), Round: verifNondetInt(), Part: part}
	cs.handleMsg(msgInfo{msg, "peer1"})
	verifReach("handled")
	c16StillLive(cs, before)
	if msg.Height != before.height || before.parts == nil {
		verifAssert(cs.ProposalBlock == before.block && c16Transitions == 0, "irrelevant-part-changes-nothing")
	}
	if cs.ProposalBlockParts != nil && cs.ProposalBlockParts.Count() == before.partsCount {
		verifAssert(cs.ProposalBlock == before.block, "no-part-added-no-block")
	}
	// a completed block whose recover counter differs from the node's is dropped (C02: the
	// validator-set hash check is skipped for recover blocks)
	verifAssert(cs.ProposalBlock == nil || cs.ProposalBlock.Recover == cs.recover, "block-with-foreign-recover-state-is-dropped")
}

//verif:opt unwind=12 budget_s=900 split=32
func H_C16_handle_proposal_message() {
	sel := verifCase(16)
	cs := c16State(sel)
	before := c16Snap(cs)
	p := &types.Proposal{Type: verifNondetByte(), Height: verifNondetUint64(), Round: verifNondetInt(),
		BlockPartsHeader: types.PartSetHeader{Total: verifNondetInt(), Hash: verifNondetBytes(32)},
		POLRound: verifNondetInt(), POLBlockID: c16BlockID(), Signature: c16Sig()}
	verifAssume(p.Type != types.ProposalTypeRecover) // the recover path rebuilds the validator set from the application: outside this harness
	verifAllocLimit(1 << 20) // a proposal must not make the node allocate without bound
	cs.handleMsg(msgInfo{&ProposalMessage{p}, "peer1"})
	verifReach("handled")
	c16StillLive(cs, before)
	if cs.Proposal != before.proposal {
		verifReach("proposal-accepted")
		verifAssert(before.proposal == nil && p.Height == before.height && p.Round == before.round, "accepted-proposal-is-for-this-round")
		verifAssert(cs.ProposalBlockParts != nil && cs.ProposalBlockParts.Total() == p.BlockPartsHeader.Total, "accepted-proposal-opens-its-part-set")
	} else {
		verifAssert(cs.ProposalBlockParts == before.parts, "rejected-proposal-changes-nothing")
	}
}

//verif:opt unwind=12 budget_s=1200 split=48
func H_C16_handle_vote_message() {
	sel := verifCase(8)
	cs := c16State(sel)
	before := c16Snap(cs)
	v := &types.Vote{}
	v.ValidatorAddress = crypto.Address{verifNondetByte(), 0x55}
	if verifNondetBool() {
		v.ValidatorAddress = nil
	}
	v.ValidatorIndex = verifNondetInt()
	v.ValidatorSize = verifNondetInt()
	v.Height = verifNondetUint64()
	v.Round = verifNondetInt()
	v.Type = verifNondetByte()
	v.BlockID = c16BlockID()
	v.Signature = c16Sig()
	cs.handleMsg(msgInfo{&VoteMessage{v}, "peer1"})
	verifReach("handled")
	c16StillLive(cs, before)
	if v.Height != before.height && v.Height+1 != before.height {
		verifAssert(c16Transitions == 0, "vote-for-other-height-ignored")
	}
}

// c16BlockID2: every combination of block hash {zero, B1}, part total {0, 1} and parts hash
// {none, A1, A2} - the degenerate ones (total 0 with a hash, hash without total) included
func c16BlockID2() types.BlockID {
	var id types.BlockID
	if verifNondetBool() {
		id.Hash = common.Hash{0xB1}
	}
	id.PartsHeader.Total = verifCase(2)
	switch verifCase(3) {
	case 1:
		id.PartsHeader.Hash = []byte{0xA1}
	case 2:
		id.PartsHeader.Hash = []byte{0xA2}
	}
	return id
}

// A second vote of a validator for the same height/round/type (a duplicate, an equivocation, or the
// same vote re-signed), delivered by another peer after the first one was accepted: whatever the two
// block ids are, the consensus routine survives it (the conflict becomes evidence or an error).
//
//verif:opt unwind=12 budget_s=1200 split=48
func H_C16_handle_second_vote_of_a_validator() {
	cs := c16State(1 + 2*verifCase(2)) // height 5, step NewHeight or Propose
	before := c16Snap(cs)
	typ := types.VoteTypePrevote
	if verifNondetBool() {
		typ = types.VoteTypePrecommit
	}
	i := verifCase(2)
	mk := func() *types.Vote {
		return &types.Vote{ValidatorAddress: c16PubKey(i).Address(), ValidatorIndex: i, ValidatorSize: 2, Height: cs.Height,
			Round: cs.Round, Type: typ, BlockID: c16BlockID2(), Signature: c16Sig()}
	}
	first := mk()
	added, err := cs.Votes.AddVote(first, "peer0")
	verifAssume(added && err == nil)
	second := mk()
	cs.handleMsg(msgInfo{&VoteMessage{second}, "peer1"})
	verifReach("second-vote-handled")
	verifAssert(cs.Height == before.height && cs.Round == before.round, "second-vote-does-not-move-height-or-round")
}
