//verif:pkg libs/common
package common

// C16 (gossip side) — bit arrays arrive inside peer messages (CommitStep.BlockParts, ProposalPOL,
// VoteSetBits.Votes), are stored in the peer state and later combined with the node's own arrays by the
// per-peer gossip goroutines (ours.Sub(peer.Copy()).PickRandom(), peer.Not().PickRandom(), SetIndex).
// Those goroutines are not recovered: a run-time failure there takes the process down. (Or, And and
// Update are only used inside Receive, under the connection's recover, where a failure costs the peer
// its connection - which C16 allows; Or does panic on a shorter consistent argument.)
//
// Obligation proved here (assume/guarantee with H_C16_receive_stores_only_consistent_bitarrays in
// consensus): for EVERY self-consistent peer array (Bits >= 0, len(Elems) == ceil(Bits/64)) of any
// size relation to ours and any contents (straggler bits included), the operations the gossip side
// uses are total, and an index they pick really is one of ours.

//verif:filestub github.com/lianxiangcloud/linkchain/libs/common.RandIntn => stub_c16_randintn

func stub_c16_randintn(n int) int {
	if !verifThorough() {
		// quick tier: the scan starts at either end; thorough: at either end or in the middle
		if verifNondetBool() {
			return 0
		}
		return n - 1
	}
	// thorough: also the middle (a fully symbolic start multiplies every scan by its length and did
	// not finish in 80 minutes)
	switch verifCase(3) {
	case 0:
		return 0
	case 1:
		return n / 2
	}
	return n - 1
}

// a self-consistent peer array: k elements, Bits anywhere the element count allows at the
// element boundaries (quick: first/last bit of the last element; thorough: also the inner edges),
// contents (straggler bits beyond Bits included) fully symbolic
func c16PeerArray() *BitArray {
	maxk := 3
	if verifThorough() {
		maxk = 4
	}
	k := verifCase(maxk)
	bits := 0
	if k > 0 {
		rs := []int{1, 64}
		if verifThorough() {
			rs = []int{1, 2, 63, 64}
		}
		bits = 64*(k-1) + rs[verifCase(len(rs))]
	}
	peer := &BitArray{Bits: bits, Elems: make([]uint64, k)}
	for i := range peer.Elems {
		peer.Elems[i] = verifNondetUint64()
	}
	return peer
}

func c16OurArray() *BitArray {
	sizes := []int{1, 65}
	if verifThorough() {
		sizes = []int{1, 64, 65, 130}
	}
	ours := NewBitArray(sizes[verifCase(len(sizes))])
	for i := 0; i < ours.Bits; i++ {
		if i%64 < 2 || i%64 > 62 { // symbolic bits at the element edges, the rest stay clear
			ours.SetIndex(i, verifNondetBool())
		}
	}
	return ours
}

//verif:opt unwind=140 budget_s=600 thorough.budget_s=2400 split=16 thorough.split=32
func H_C16_gossip_bitarray_operations_total() {
	ours := c16OurArray()
	peer := c16PeerArray()
	switch verifCase(3) {
	case 0: // gossipDataRoutine / PickVoteToSend
		if idx, ok := ours.Sub(peer.Copy()).PickRandom(); ok {
			verifAssert(idx >= 0 && idx < ours.Bits, "picked-index-in-range")
			verifAssert(ours.GetIndex(idx), "picked-index-is-one-we-have")
			verifAssert(idx >= peer.Bits || !peer.GetIndex(idx), "picked-index-is-one-the-peer-lacks")
		}
	case 1: // gossipDataForCatchup
		if idx, ok := peer.Not().PickRandom(); ok {
			verifAssert(idx >= 0 && idx < peer.Bits, "catchup-index-in-range")
			verifAssert(!peer.GetIndex(idx), "catchup-index-is-one-the-peer-lacks")
		}
	case 2: // setHasVote / SetHasProposalBlockPart on the stored peer array
		i := verifNondetInt()
		verifAssume(i >= 0)
		peer.SetIndex(i, true)
	}
	verifReach("combined")
}
