//verif:pkg types
package types

import (
	"github.com/lianxiangcloud/linkchain/libs/crypto/merkle"
)

// C16 (types side) — the data structures the consensus routine feeds peer-controlled values into
// must reject out-of-range values with an error, never with a run-time failure.

//verif:filestub github.com/lianxiangcloud/linkchain/libs/crypto/merkle.SimpleHashFromTwoHashes => stub_c16_h2
//verif:filestub github.com/lianxiangcloud/linkchain/libs/crypto.Keccak256 => stub_c16_keccak

func stub_c16_h2(left, right []byte) []byte { return verifHashBytes("h2", 32, left, right) }
func stub_c16_keccak(data ...[]byte) []byte  { return verifHashBytes("keccak", 32, data) }

// PartSet.AddPart with a part whose index, bytes and proof are arbitrary (the part comes straight
// from a BlockPartMessage): error or (false,nil), never a panic; the set is unchanged on rejection.
//verif:opt unwind=10 budget_s=600 split=8
func H_C16_addpart_arbitrary_part() {
	total := 1 + verifCase(3)
	ps := NewPartSetFromHeader(PartSetHeader{Total: total, Hash: verifNondetBytes(32)})
	naunts := verifCase(3)
	aunts := make([][]byte, naunts)
	for i := range aunts {
		aunts[i] = verifNondetBytes(32)
	}
	p := &Part{Index: verifNondetInt(), Bytes: verifNondetBytes(verifCase(3)), Proof: merkle.SimpleProof{Aunts: aunts}}
	added, err := ps.AddPart(p)
	verifReach("returned")
	if !added {
		verifAssert(ps.Count() == 0, "rejected-part-leaves-set")
	}
	if p.Index < 0 || p.Index >= total {
		verifAssert(!added && err == ErrPartSetUnexpectedIndex, "out-of-range-index-is-an-error")
	}
}
