//verif:pkg libs/p2p/conn
package conn

import (
	"bytes"
	"time"

	flow "github.com/lianxiangcloud/linkchain/libs/flowrate"
)

// C18 — every multiplexed channel delivers whole messages, intact and in the order they were sent,
// however the channels' packets interleave and wherever messages are cut into packets.
// Real code: Channel.trySendBytes, isSendPending, nextPacketMsg, recvPacketMsg. The packet payload
// size is the configuration field maxPacketMsgPayloadSize (set to 2 so that small messages span
// several packets and hit the exact-multiple boundary); the wire between the two ends is the
// identity (the frame layer is checked separately).

func c18Channel(id byte, payload int, recvCap int) *Channel {
	return &Channel{
		desc:                    ChannelDescriptor{ID: id, Priority: 1, SendQueueCapacity: 4, RecvMessageCapacity: recvCap, RecvBufferCapacity: 16},
		sendQueue:               make(chan []byte, 4),
		recving:                 make([]byte, 0, 16),
		maxPacketMsgPayloadSize: payload,
	}
}

//verif:opt unwind=24 budget_s=900 split=25
func H_C18_channels_deliver_whole_messages_in_order() {
	sel := verifCase(25) // lengths of the two messages of channel A
	maxLen := 5
	payload := 2
	// two channels, two messages each (channel B: two fixed lengths chosen by the second split)
	lensA := [2]int{1 + sel/5, 1 + sel%5}
	selB := verifCase(4)
	lensB := [2]int{1 + selB/2*2, 2 + selB%2*2}
	_ = maxLen
	sA, rA := c18Channel(1, payload, 8), c18Channel(1, payload, 8)
	sB, rB := c18Channel(2, payload, 8), c18Channel(2, payload, 8)
	c18Exchange(sA, rA, sB, rB, lensA, lensB, payload)
}

func c18Exchange(sA, rA, sB, rB *Channel, lensA, lensB [2]int, payload int) {
	var sentA, sentB [2][]byte
	for i := 0; i < 2; i++ {
		sentA[i] = verifNondetBytes(lensA[i])
		sentB[i] = verifNondetBytes(lensB[i])
		verifAssert(sA.trySendBytes(sentA[i]) && sB.trySendBytes(sentB[i]), "queued")
	}
	gotA, gotB := 0, 0
	for step := 0; step < 16; step++ {
		pa, pb := sA.isSendPending(), sB.isSendPending()
		if !pa && !pb {
			break
		}
		useA := pa
		if pa && pb {
			useA = verifNondetBool() // any interleaving of the two channels' packets
		}
		if useA {
			p := sA.nextPacketMsg()
			verifAssert(len(p.Bytes) >= 1 && len(p.Bytes) <= payload && p.ChannelID == 1, "packet-within-payload-size")
			msg, err := rA.recvPacketMsg(p)
			verifAssert(err == nil, "no-error-within-capacity")
			if msg != nil {
				verifAssert(gotA < 2, "no-extra-message")
				if gotA < 2 {
					verifAssert(bytes.Equal(msg, sentA[gotA]), "channel-A-delivers-whole-message-in-order")
				}
				gotA++
			}
		} else {
			p := sB.nextPacketMsg()
			verifAssert(len(p.Bytes) >= 1 && len(p.Bytes) <= payload && p.ChannelID == 2, "packet-within-payload-size")
			msg, err := rB.recvPacketMsg(p)
			verifAssert(err == nil, "no-error-within-capacity")
			if msg != nil {
				verifAssert(gotB < 2, "no-extra-message")
				if gotB < 2 {
					verifAssert(bytes.Equal(msg, sentB[gotB]), "channel-B-delivers-whole-message-in-order")
				}
				gotB++
			}
		}
	}
	verifReach("drained")
	verifAssert(gotA == 2 && gotB == 2, "every-message-delivered")
	verifAssert(sA.loadSendQueueSize() == 0 && sB.loadSendQueueSize() == 0, "send-queue-accounting-returns-to-zero")
	verifAssert(len(rA.recving) == 0 && len(rB.recving) == 0, "nothing-left-half-received")
}

// a message larger than the receive capacity is an error, never a truncated delivery
//verif:opt unwind=24 budget_s=600
func H_C18_oversized_message_is_an_error() {
	capacity := 3
	n := 1 + verifCase(6)
	s, r := c18Channel(1, 2, 64), c18Channel(1, 2, capacity)
	msg := verifNondetBytes(n)
	s.trySendBytes(msg)
	delivered := false
	failed := false
	for step := 0; step < 8 && s.isSendPending(); step++ {
		out, err := r.recvPacketMsg(s.nextPacketMsg())
		if err != nil {
			failed = true
			break
		}
		if out != nil {
			delivered = true
			verifAssert(bytes.Equal(out, msg), "delivered-only-whole")
		}
	}
	verifReach("done")
	verifAssert(delivered == (n <= capacity), "delivered-iff-within-capacity")
	verifAssert(failed == (n > capacity), "oversized-is-an-error")
}

// The receiving channels are the ones the REAL constructor of a connection builds
// (NewMConnectionWithConfig -> newChannel: that is where the reassembly buffers come from), with a
// reassembly buffer smaller than the messages, so that the buffers have to grow while the other
// channel has a half-received message: each channel still delivers exactly what was sent on it.
// flowrate monitors (clocks, floats) and the packet-size probe (reflective encoder) are cut.
//verif:stub github.com/lianxiangcloud/linkchain/libs/flowrate.New => stub_c18_flownew
//verif:stub (*github.com/lianxiangcloud/linkchain/libs/p2p/conn.MConnection).maxPacketMsgSize => stub_c18_maxpacket
//verif:opt unwind=24 budget_s=900 split=12
func H_C18_channels_of_one_connection_do_not_disturb_each_other() {
	payload := 2
	descs := []*ChannelDescriptor{
		{ID: 1, Priority: 1, SendQueueCapacity: 4, RecvMessageCapacity: 8, RecvBufferCapacity: 2},
		{ID: 2, Priority: 1, SendQueueCapacity: 4, RecvMessageCapacity: 8, RecvBufferCapacity: 2},
	}
	cfg := DefaultMConnConfig()
	cfg.MaxPacketMsgPayloadSize = payload
	mc := NewMConnectionWithConfig(nil, descs, nil, nil, cfg)
	rA, rB := mc.channelsIdx[1], mc.channelsIdx[2]
	verifAssert(rA != nil && rB != nil && len(mc.channels) == 2, "connection-has-its-channels")
	sA, sB := c18Channel(1, payload, 8), c18Channel(2, payload, 8)
	selA := verifCase(6)
	lensA := [2]int{3 + selA/2, 1 + selA%2*3}
	selB := verifCase(2)
	lensB := [2]int{3 + selB, 2}
	c18Exchange(sA, rA, sB, rB, lensA, lensB, payload)
}

func stub_c18_flownew(sampleRate, windowSize time.Duration) *flow.Monitor { return &flow.Monitor{} }
func stub_c18_maxpacket(c *MConnection) int                              { return 64 }
