//verif:pkg libs/p2p/conn
package conn

// C18 (authentication half) — what the handshake signs. A peer is accepted when its signature over
// the challenge verifies under the long-term key it presents; that proves possession of the key in
// THIS handshake only if the challenge is fresh for the verifier, i.e. bound to both ephemeral keys of
// this handshake (the verifier's own fresh key included) in a fixed order - otherwise a signature
// recorded in one handshake can be replayed in another. Likewise the two directions must never share
// a nonce. SHA-256 / RIPEMD-160 are collision-free uninterpreted functions here.
//
// Real code: sort32, genChallenge, genNonces. The message exchange itself (MakeSecretConnection over a
// connection, cmn.Parallel goroutines, ser) is not encoded.

//verif:filestub github.com/lianxiangcloud/linkchain/libs/p2p/conn.hash32 => stub_c18h_hash32
//verif:filestub github.com/lianxiangcloud/linkchain/libs/p2p/conn.hash24 => stub_c18h_hash24

func stub_c18h_hash32(input []byte) *[32]byte {
	res := new([32]byte)
	copy(res[:], verifHashBytes("sha256", 32, input))
	return res
}
func stub_c18h_hash24(input []byte) *[24]byte {
	res := new([24]byte)
	copy(res[:], verifHashBytes("ripemd160", 20, input)) // the first 20 bytes, as the real one
	return res
}

func c18hKey() *[32]byte {
	k := new([32]byte)
	copy(k[:], verifNondetBytes(32))
	return k
}

//verif:opt unwind=40 budget_s=600
func H_C18_handshake_challenge_binds_both_ephemeral_keys() {
	// two handshakes: (a1, b1) and (a2, b2) are the ephemeral keys the two sides contributed
	a1, b1, a2, b2 := c18hKey(), c18hKey(), c18hKey(), c18hKey()
	lo1, hi1 := sort32(a1, b1)
	lo2, hi2 := sort32(a2, b2)
	c1 := genChallenge(lo1, hi1)
	c2 := genChallenge(lo2, hi2)
	verifReach("challenges")
	if *c1 == *c2 {
		// a signature made in one handshake verifies in the other only if both contributed the same keys
		verifAssert(*lo1 == *lo2 && *hi1 == *hi2, "equal-challenges-only-for-the-same-pair-of-ephemeral-keys")
	}
	// both sides of one handshake compute the same challenge, whoever is "lo"
	lo1r, hi1r := sort32(b1, a1)
	verifAssert(*genChallenge(lo1r, hi1r) == *c1, "both-sides-compute-the-same-challenge")
	// the two directions of one connection use different nonces, and each side's receive nonce is the
	// other side's send nonce
	locIsLo := *lo1 == *a1
	recvA, sendA := genNonces(lo1, hi1, locIsLo)
	recvB, sendB := genNonces(lo1, hi1, !locIsLo)
	verifAssert(*recvA != *sendA, "directions-do-not-share-a-nonce")
	verifAssert(*recvA == *sendB && *sendA == *recvB, "receive-nonce-is-the-peers-send-nonce")
}
