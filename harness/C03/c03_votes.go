//verif:pkg types
package types

import (
	"bytes"
	"encoding/binary"
	"time"

	"github.com/lianxiangcloud/linkchain/libs/common"
	"github.com/lianxiangcloud/linkchain/libs/crypto"
	"github.com/pkg/errors"
)

// C03 — only >2/3 of the voting power, correctly signed for that exact block, makes a commit.
//
// Environment (all listed in the evidence):
//  * signature verification is an uninterpreted predicate sigok(pubkey, signbytes, signature)
//  * ser.MarshalJSON of the canonical vote is a collision-free uninterpreted function of its fields
//  * CanonicalTime is an uninterpreted function of the instant
//  * BlockID.Key is replaced by an explicit injective byte encoding (hash | total | parts hash)
//  * PubKeyEd25519.Address is the first two bytes of the key (harness keys differ there)

//verif:filestub (github.com/lianxiangcloud/linkchain/libs/crypto.PubKeyEd25519).VerifyBytes => stub_c03_verify
//verif:filestub (github.com/lianxiangcloud/linkchain/libs/crypto.PubKeyEd25519).Address => stub_c03_address
//verif:filestub (github.com/lianxiangcloud/linkchain/libs/crypto.SignatureEd25519).Equals => stub_c03_sigequals
//verif:filestub github.com/lianxiangcloud/linkchain/libs/ser.MarshalJSON => stub_c03_marshaljson
//verif:filestub github.com/lianxiangcloud/linkchain/types.CanonicalTime => stub_c03_ctime
//verif:filestub (github.com/lianxiangcloud/linkchain/types.BlockID).Key => stub_c03_blockkey

func stub_c03_verify(pk crypto.PubKeyEd25519, msg []byte, sig crypto.Signature) bool {
	s, ok := sig.(crypto.SignatureEd25519)
	if !ok {
		return false
	}
	return verifUFBool("sigok", pk, msg, s)
}
func stub_c03_address(pk crypto.PubKeyEd25519) crypto.Address { return crypto.Address{pk[0], pk[1]} }
func stub_c03_sigequals(sig crypto.SignatureEd25519, other crypto.Signature) bool {
	o, ok := other.(crypto.SignatureEd25519)
	return ok && o == sig
}
func stub_c03_marshaljson(o interface{}) ([]byte, error) { return verifHashBytes("json", 32, o), nil }
func stub_c03_ctime(t time.Time) string                  { return string(verifUFBytes("ctime", 8, t.UnixNano())) }
func stub_c03_blockkey(b BlockID) string {
	var tot [8]byte
	binary.BigEndian.PutUint64(tot[:], uint64(b.PartsHeader.Total))
	return string(b.Hash[:]) + string(tot[:]) + string(b.PartsHeader.Hash)
}

const c03Chain = "chain-A"

func c03PubKey(i int) crypto.PubKeyEd25519 { return crypto.PubKeyEd25519{byte(i + 1), 0x55} }

func c03ValSet(n int) (*ValidatorSet, []int64) {
	vals := make([]*Validator, n)
	powers := make([]int64, n)
	var total int64
	for i := 0; i < n; i++ {
		p := verifNondetInt64()
		verifAssume(p >= 0 && p < 1<<60)
		pk := c03PubKey(i)
		vals[i] = &Validator{Address: pk.Address(), PubKey: pk, VotingPower: p}
		powers[i] = p
		total += p
	}
	verifAssume(total > 0 && total < 1<<62) // the property's own range
	return &ValidatorSet{Validators: vals}, powers
}

// c03BlockID picks one of two distinct non-nil block ids or the nil id.
func c03BlockID() BlockID {
	switch verifCase(3) {
	case 0:
		return BlockID{Hash: common.Hash{0xB1}, PartsHeader: PartSetHeader{Total: 1, Hash: []byte{0xA1}}}
	case 1:
		return BlockID{Hash: common.Hash{0xB2}, PartsHeader: PartSetHeader{Total: 1, Hash: []byte{0xA2}}}
	}
	return BlockID{}
}

func c03Sig() crypto.Signature {
	var s crypto.SignatureEd25519
	copy(s[:], verifNondetBytes(64))
	return s
}

// an arbitrary vote: every field symbolic (address and block id from small sets)
func c03Vote(n int) *Vote {
	v := &Vote{}
	ai := verifNondetByte()
	v.ValidatorAddress = crypto.Address{ai, 0x55}
	if verifNondetBool() {
		v.ValidatorAddress = nil
	}
	v.ValidatorIndex = verifNondetInt()
	v.ValidatorSize = verifNondetInt()
	v.Height = verifNondetUint64()
	v.Round = verifNondetInt()
	v.Type = verifNondetByte()
	v.BlockID = c03BlockID()
	v.Signature = c03Sig()
	return v
}

// a vote the set must accept: right index/address/size/step, arbitrary block id, signature assumed valid
func c03GoodVote(n int, height uint64, round int, typ byte) *Vote {
	i := verifCase(n)
	v := &Vote{ValidatorAddress: c03PubKey(i).Address(), ValidatorIndex: i, ValidatorSize: n,
		Height: height, Round: round, Type: typ, BlockID: c03BlockID(), Signature: c03Sig()}
	verifAssume(c03SigOK(i, c03Chain, v))
	return v
}

func c03SigOK(i int, chain string, v *Vote) bool {
	return c03PubKey(i).VerifyBytes(v.SignBytes(chain), v.Signature)
}

// ---------------------------------------------------------------- VerifyCommit

// Reference predicate written from the property text.
func c03RefCommitOK(n int, powers []int64, chain string, claimed BlockID, height uint64, c *Commit) bool {
	if len(c.Precommits) != n {
		return false
	}
	// the commit's height and round are those of its first present precommit
	var first *Vote
	for _, pc := range c.Precommits {
		if pc != nil {
			first = pc
			break
		}
	}
	var ch uint64
	var cr int
	if first != nil {
		ch, cr = first.Height, first.Round
	}
	if ch != height {
		return false
	}
	var tally, total int64
	for i, pc := range c.Precommits {
		total += powers[i]
		if pc == nil {
			continue
		}
		if pc.Height != height || pc.Round != cr || pc.Type != VoteTypePrecommit {
			return false
		}
		if !c03SigOK(i, chain, pc) { // signed by the validator AT THAT INDEX over this exact vote on this chain
			return false
		}
		if pc.BlockID.Equals(claimed) {
			tally += powers[i] // every index counted once
		}
	}
	// strictly more than two thirds; H_C03_threshold_arithmetic decides that this integer
	// expression is exact (3*tally > 2*total) for every total below 2^62
	return tally > total*2/3
}

//verif:opt unwind=8 budget_s=900 split=14 thorough.split=16
func H_C03_verifycommit_differential() {
	n := 2
	if verifThorough() {
		n = 3
	}
	// first split: number of slots (0..n+1, wrong sizes too) x presence mask of the first two slots
	sel := verifCase((n + 2) * 4)
	slots := sel / 4
	mask := sel % 4
	claimed := c03BlockID()
	vs, powers := c03ValSet(n)
	height := verifNondetUint64()
	c := &Commit{BlockID: claimed, Precommits: make([]*Vote, slots)}
	for i := range c.Precommits {
		present := false
		if i < 2 {
			present = mask&(1<<uint(i)) != 0
		} else {
			present = verifNondetBool()
		}
		if present {
			c.Precommits[i] = c03Vote(n)
		}
	}
	err := vs.VerifyCommit(c03Chain, claimed, height, c)
	verifReach("returned")
	if err == nil {
		verifReach("accepted")
	}
	verifAssert((err == nil) == c03RefCommitOK(n, powers, c03Chain, claimed, height, c), "verifycommit-iff-reference")
}

// threshold arithmetic: for total < 2^62, t > total*2/3 <=> 3t > 2*total, and the quorum is the least such t
func H_C03_threshold_arithmetic() {
	total := verifNondetInt64()
	t := verifNondetInt64()
	verifAssume(total >= 0 && total < 1<<62 && t >= 0 && t <= total)
	code := t > total*2/3
	exact := 3*uint64(t) > 2*uint64(total)
	verifAssert(code == exact, "two-thirds-exact")
	quorum := total*2/3 + 1
	verifAssert((t >= quorum) == exact, "quorum-is-least-majority")
	verifReach("done")
}

// ---------------------------------------------------------------- VoteSet

func c03CheckInvariant(vs *VoteSet, n int, powers []int64) {
	var sum int64
	for i := 0; i < n; i++ {
		v := vs.votes[i]
		verifAssert(vs.votesBitArray.GetIndex(i) == (v != nil), "bitarray-matches-votes")
		if v != nil {
			sum += powers[i]
			verifAssert(v.ValidatorIndex == i, "stored-vote-index")
			verifAssert(v.Height == vs.height && v.Round == vs.round && v.Type == vs.type_, "stored-vote-step")
			verifAssert(bytes.Equal(v.ValidatorAddress, c03PubKey(i).Address()), "stored-vote-address")
			verifAssert(c03SigOK(i, vs.chainID, v), "stored-vote-signed")
		}
	}
	verifAssert(vs.sum == sum, "round-total-counts-each-validator-once")
	quorum := vs.valSet.TotalVotingPower()*2/3 + 1
	for key, bv := range vs.votesByBlock {
		var bs int64
		for i := 0; i < n; i++ {
			v := bv.votes[i]
			verifAssert(bv.bitArray.GetIndex(i) == (v != nil), "block-bitarray-matches")
			if v != nil {
				bs += powers[i]
				verifAssert(v.ValidatorIndex == i && v.BlockID.Key() == key, "block-vote-in-its-slot")
				verifAssert(c03SigOK(i, vs.chainID, v), "block-vote-signed")
			}
		}
		verifAssert(bv.sum == bs, "block-total-counts-each-validator-once")
	}
	if vs.maj23 != nil {
		bv := vs.votesByBlock[vs.maj23.Key()]
		verifAssert(bv != nil && bv.sum >= quorum, "maj23-has-quorum")
	}
}

// History of k arbitrary AddVote / SetPeerMaj23 calls from the empty set (or from a recorded
// equivocation); after each
// the representation invariant holds, errors have the documented class, majority is
// reported for at most one block id, and a reported majority makes a commit that
// VerifyCommit accepts.
//verif:opt unwind=10 budget_s=1500 thorough.budget_s=3000 split=64
func H_C03_voteset_history() {
	n := 2
	// first split: vote type x pre-state (empty / one accepted vote (validator x block id) / a peer majority claim)
	ntyp := 1
	if verifThorough() {
		ntyp = 2 // prevote sets too
	}
	sel := verifCase(ntyp * 5)
	typ := VoteTypePrecommit
	if sel%ntyp == 1 {
		typ = VoteTypePrevote
	}
	pre := sel / ntyp
	steps := 1
	if verifThorough() {
		steps = 2
	}
	valset, powers := c03ValSet(n)
	height := uint64(7)
	round := 1
	vs := NewVoteSet(c03Chain, height, round, typ, valset)
	// pre-state: rejected votes leave the set unchanged (asserted below for every step), so the
	// states reachable by one call are: empty, one accepted vote, one recorded peer claim
	switch pre {
	case 1, 2:
		added, err := vs.AddVote(c03GoodVote(n, height, round, typ))
		verifAssert(added && err == nil, "well-formed-signed-vote-is-accepted")
		if pre == 2 {
			_ = vs.SetPeerMaj23("peer0", c03BlockID())
		}
	case 3:
		_ = vs.SetPeerMaj23("peer0", c03BlockID())
	case 4:
		// an equivocation already on record: a validator's vote, a peer's majority claim for another
		// block, and that validator's conflicting vote for the claimed block (kept in the claimed
		// block's tally only) - re-deliveries and further votes start from here
		first := c03GoodVote(n, height, round, typ)
		added, err := vs.AddVote(first)
		verifAssert(added && err == nil, "well-formed-signed-vote-is-accepted")
		claimed := c03BlockID()
		verifAssume(!claimed.Equals(first.BlockID))
		_ = vs.SetPeerMaj23("peer0", claimed)
		second := &Vote{ValidatorAddress: first.ValidatorAddress, ValidatorIndex: first.ValidatorIndex, ValidatorSize: n,
			Height: height, Round: round, Type: typ, BlockID: claimed, Signature: c03Sig()}
		verifAssume(c03SigOK(first.ValidatorIndex, c03Chain, second))
		added, err = vs.AddVote(second)
		_, isConflict := err.(*ErrVoteConflictingVotes)
		verifAssert(added && isConflict, "conflicting-vote-for-a-claimed-block-is-kept-as-evidence")
	}
	var firstMaj *BlockID
	if vs.maj23 != nil {
		b := *vs.maj23
		firstMaj = &b
	}
	for s := 0; s < steps; s++ {
		if verifNondetBool() {
			_ = vs.SetPeerMaj23("peer", c03BlockID())
			continue
		}
		v := c03Vote(n)
		wellFormed := v.ValidatorIndex >= 0 && v.ValidatorIndex < n && len(v.ValidatorAddress) != 0 &&
			v.ValidatorSize == n && v.Height == height && v.Round == round && v.Type == typ
		sumBefore := vs.sum
		added, err := vs.AddVote(v)
		cause := errors.Cause(err)
		if added {
			verifReach("added")
			verifAssert(wellFormed, "added-only-well-formed")
			if wellFormed {
				verifAssert(bytes.Equal(v.ValidatorAddress, c03PubKey(v.ValidatorIndex).Address()), "added-only-right-address")
				verifAssert(c03SigOK(v.ValidatorIndex, c03Chain, v), "added-only-correctly-signed")
			}
		}
		if v.ValidatorIndex < 0 || (wellFormed && false) {
			verifAssert(cause == ErrVoteInvalidValidatorIndex, "negative-index-error-class")
		}
		if v.ValidatorIndex >= 0 && len(v.ValidatorAddress) != 0 && v.ValidatorSize == n &&
			(v.Height != height || v.Round != round || v.Type != typ) {
			verifAssert(cause == ErrVoteUnexpectedStep, "wrong-step-error-class")
		}
		if _, isConflict := err.(*ErrVoteConflictingVotes); isConflict {
			verifReach("conflict")
			ce := err.(*ErrVoteConflictingVotes)
			verifAssert(ce.VoteB == v && ce.VoteA != nil && ce.VoteA.ValidatorIndex == v.ValidatorIndex &&
				!ce.VoteA.BlockID.Equals(v.BlockID), "conflict-evidence-is-the-two-votes")
		}
		if !added {
			verifAssert(vs.sum == sumBefore, "rejected-vote-not-counted")
		} else {
			verifAssert(vs.sum == sumBefore || vs.sum == sumBefore+powers[v.ValidatorIndex], "counted-at-most-once")
		}
		if firstMaj != nil {
			verifAssert(vs.maj23 != nil && vs.maj23.Equals(*firstMaj), "majority-reported-for-one-block-only")
		} else if vs.maj23 != nil {
			b := *vs.maj23
			firstMaj = &b
		}
	}
	verifReach("history-done")
	c03CheckInvariant(vs, n, powers)
	if vs.maj23 != nil {
		verifReach("majority")
		id, ok := vs.TwoThirdsMajority()
		verifAssert(ok && id.Equals(*vs.maj23), "two-thirds-majority-reports-maj23")
		verifAssert(vs.HasTwoThirdsAny(), "majority-implies-two-thirds-any")
		if typ == VoteTypePrecommit {
			commit := vs.MakeCommit()
			err := valset.VerifyCommit(c03Chain, *vs.maj23, height, commit)
			verifAssert(err == nil, "made-commit-verifies")
		}
	}
}
