# static obligations for C03, regenerated from /repo on each run (go/ssa call graph over the whole program)
import sys, os
sys.path.insert(0, os.path.join(os.path.dirname(os.path.abspath(__file__)), '..', '..', 'engine'))
from symgo.server import Server

M = 'github.com/lianxiangcloud/linkchain'


def run(tier, workdir):
    srv = Server(['./cmd/...', './node/...', './consensus/...', './types/...', './blockchain/...'])
    try:
        r = srv.req(op='callers', prefix=M, target='(*%s/types.ValidatorSet).VerifyCommit' % M, method='')
        got = sorted(set(r.get('callers') or []))
        want = sorted(['(*%s/blockchain.BlockchainReactor).poolRoutine' % M, '%s/consensus.validateBlock' % M])
        r2 = srv.req(op='callers', prefix=M, target='(*%s/types.ValidatorSet).VerifyCommitAny' % M, method='')
        any_callers = r2.get('callers') or []
        return [
            dict(name='commit-acceptance-goes-through-VerifyCommit-only-at-block-validation-and-fast-sync',
                 ok=(got == want), detail=got, kind='ssa-callgraph'),
            # VerifyCommitAny tallies by address (one validator can be counted twice); it must stay unused
            dict(name='VerifyCommitAny-has-no-caller', ok=(len(any_callers) == 0), detail=any_callers, kind='ssa-callgraph'),
        ]
    finally:
        srv.close()
