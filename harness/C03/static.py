# static obligations for C03, regenerated from /repo on each run (go/ssa call graph over the whole program)
import sys, os
sys.path.insert(0, os.path.join(os.path.dirname(os.path.abspath(__file__)), '..', '..', 'engine'))
from symgo.server import Server
from symgo.run import REPO

M = 'github.com/lianxiangcloud/linkchain'


def run(tier, workdir):
    srv = Server(['./cmd/...', './node/...', './consensus/...', './types/...', './blockchain/...'], repo=REPO)
    try:
        r = srv.req(op='callers', prefix=M, target='(*%s/types.ValidatorSet).VerifyCommit' % M, method='')
        got = sorted(set(r.get('callers') or []))
        want = sorted(['(*%s/blockchain.BlockchainReactor).poolRoutine' % M, '%s/consensus.validateBlock' % M])
        r2 = srv.req(op='callers', prefix=M, target='(*%s/types.ValidatorSet).VerifyCommitAny' % M, method='')
        any_callers = r2.get('callers') or []
        # fast sync applies up to ten blocks per tick, and ApplyBlock replaces the status after each: the
        # validator set a block's commit is verified against must be read from the status right at the
        # call (same basic block, a load), not carried over from before the batch loop
        fresh, fdetail = None, 'VerifyCommit call not found in poolRoutine'
        try:
            fid = srv.lookup('(*%s/blockchain.BlockchainReactor).poolRoutine' % M)
            vc = srv.lookup('(*%s/types.ValidatorSet).VerifyCommit' % M)
            fn = srv.func(fid)
            defs = {}
            for bi, b in enumerate(fn['blocks']):
                for ins in b:
                    if isinstance(ins.get('r'), int):
                        defs[ins['r']] = (bi, ins)
            for bi, b in enumerate(fn['blocks']):
                for ins in b:
                    if ins.get('o') == 'Call' and isinstance(ins.get('fn'), dict) and ins['fn'].get('f') == vc:
                        recv = ins['args'][0]
                        d = defs.get(recv) if isinstance(recv, int) else None
                        fresh = bool(d and d[0] == bi and d[1].get('o') == 'UnOp')
                        fdetail = 'receiver defined by %s in block %s, call in block %d (%s)' % (
                            d[1].get('o') if d else None, d[0] if d else None, bi, ins.get('pos'))
        except Exception as e:
            fdetail = 'error: %r' % (e,)
        return [
            dict(name='fast-sync-verifies-each-commit-against-the-validator-set-read-at-that-block', ok=fresh,
                 detail=fdetail, kind='ssa-dataflow'),
            dict(name='commit-acceptance-goes-through-VerifyCommit-only-at-block-validation-and-fast-sync',
                 ok=(got == want), detail=got, kind='ssa-callgraph'),
            # VerifyCommitAny tallies by address (one validator can be counted twice); it must stay unused
            dict(name='VerifyCommitAny-has-no-caller', ok=(len(any_callers) == 0), detail=any_callers, kind='ssa-callgraph'),
        ]
    finally:
        srv.close()
