//verif:pkg app
package app

import (
	cmn "github.com/lianxiangcloud/linkchain/libs/common"
	"github.com/lianxiangcloud/linkchain/libs/crypto"
	"github.com/lianxiangcloud/linkchain/libs/log"
	"github.com/lianxiangcloud/linkchain/state"
	"github.com/lianxiangcloud/linkchain/types"
)

// C05 (evidence part of processBlock) — executing a block's evidence is a function of the committed
// result of the previous block and the block: the proposer runs processBlock for the same height twice
// (PreRunBlock, then CheckBlock of its own proposal) and a validator or fast-syncing node once, from
// the same app.lastTxsResult; all of them must get the same candidate bookkeeping and issue the same
// score updates, and the committed app.lastTxsResult itself must not change underneath them.
//
// Real code: TxsResult.SetCandidates, LinkApplication.processBlockEvidence (the two statements of
// processBlock that handle evidence). Cut: StateDB.UpdateCandidateScore (a call into the candidates
// contract) records the update it is asked for.

//verif:filestub (*github.com/lianxiangcloud/linkchain/state.StateDB).UpdateCandidateScore => stub_c05e_updatescore
//verif:filestub (github.com/lianxiangcloud/linkchain/libs/crypto.PubKeyEd25519).Address => stub_c05e_address
//verif:filestub (github.com/lianxiangcloud/linkchain/libs/common.HexBytes).String => stub_c05e_hexstring

type c05eUpd struct {
	who byte
	op  int
}

var c05eUpdates []c05eUpd

func stub_c05e_updatescore(st *state.StateDB, pubkey crypto.PubKey, op int, maxScore, height int64, logger log.Logger) {
	c05eUpdates = append(c05eUpdates, c05eUpd{pubkey.(crypto.PubKeyEd25519)[0], op})
}
func stub_c05e_address(pk crypto.PubKeyEd25519) crypto.Address { return crypto.Address{pk[0], pk[1]} }
func stub_c05e_hexstring(b cmn.HexBytes) string                { return string(b) }

func c05ePub(i int) crypto.PubKeyEd25519 { return crypto.PubKeyEd25519{byte(i + 1), 0x55} }

type c05eObs struct {
	produce [2]int
	score   [2]int64
	nupd    int
	upd     [4]c05eUpd
}

func c05eRun(app *LinkApplication, evl types.EvidenceList) c05eObs {
	c05eUpdates = nil
	pr := &ProcessResult{height: 7}
	// the two evidence statements of processBlock
	pr.txsResult.SetCandidates(app.lastTxsResult.Candidates)
	app.processBlockEvidence(evl, pr)
	var o c05eObs
	for i, c := range pr.txsResult.Candidates {
		o.produce[i], o.score[i] = c.ProduceInfo, c.Score
	}
	o.nupd = len(c05eUpdates)
	for i, u := range c05eUpdates {
		if i < len(o.upd) {
			o.upd[i] = u
		}
	}
	return o
}

//verif:opt unwind=12 budget_s=600 split=9
func H_C05_evidence_handling_is_reexecutable() {
	app := &LinkApplication{logger: log.NewNopLogger(), lastCoe: &types.Coefficient{MaxScore: 5}}
	var cands []*types.CandidateInOrder
	for i := 0; i < 2; i++ {
		pk := c05ePub(i)
		pi := int(verifNondetInt8())
		verifAssume(pi >= -3)
		verifAssume(pi <= 3)
		sc := int64(verifNondetInt8())
		verifAssume(sc >= 0)
		verifAssume(sc <= 5)
		cands = append(cands, &types.CandidateInOrder{Candidate: types.Candidate{Address: pk.Address(), PubKey: pk, VotingPower: 1}, ProduceInfo: pi, Score: sc})
	}
	app.lastTxsResult.SetCandidates(cands) // as the commit of the previous block left it
	before := [4]int64{int64(app.lastTxsResult.Candidates[0].ProduceInfo), app.lastTxsResult.Candidates[0].Score,
		int64(app.lastTxsResult.Candidates[1].ProduceInfo), app.lastTxsResult.Candidates[1].Score}

	var evl types.EvidenceList
	for k := 0; k < 1+verifCase(2); k++ {
		switch verifCase(3) {
		case 0:
			evl = append(evl, &types.DuplicateVoteEvidence{PubKey: c05ePub(verifCase(3))}) // index 2: not a candidate
		case 1:
			evl = append(evl, &types.FaultValidatorsEvidence{Proposer: c05ePub(verifCase(2)), FaultVal: c05ePub(1), Round: 0})
		case 2:
			evl = append(evl, &types.FaultValidatorsEvidence{Proposer: c05ePub(0), FaultVal: c05ePub(verifCase(2)), Round: 1})
		}
	}
	first := c05eRun(app, evl)  // PreRunBlock on the proposer
	second := c05eRun(app, evl) // CheckBlock of the same block (proposer), or the only run of a validator
	verifReach("executed-twice")
	verifAssert(first == second, "re-executing-the-evidence-gives-the-same-result")
	after := [4]int64{int64(app.lastTxsResult.Candidates[0].ProduceInfo), app.lastTxsResult.Candidates[0].Score,
		int64(app.lastTxsResult.Candidates[1].ProduceInfo), app.lastTxsResult.Candidates[1].Score}
	verifAssert(before == after, "executing-a-block-leaves-the-committed-result-alone")
}
