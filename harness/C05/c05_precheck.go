//verif:pkg app
package app

import (
	"math/big"

	"github.com/lianxiangcloud/linkchain/libs/common"
	dbm "github.com/lianxiangcloud/linkchain/libs/db"
	"github.com/lianxiangcloud/linkchain/types"
)

// C05 (validator path, parallel signature pre-check) — whether a validator accepts a block does not
// depend on what its mempool happens to have cached. The real LinkApplication.verifyTxsOnProcess (the
// pre-check only the validator / fast-sync path runs: sender from the mempool cache when the cache
// has the transaction, recovered otherwise; blacklist test on sender, token and recipient) runs on two
// nodes with the same block and the same blacklist (filled through the real blacklist.Init), one with
// every transaction of the block cached, one with an empty cache; its goroutines are joined in either
// of the two schedules the engine has. Both nodes must give the same verdict.
// Cut: transaction hash (reflective encoder) and sender recovery (cgo) - the sender is a function of
// the transaction's nonce field, the same on both nodes.

//verif:filestub (*github.com/lianxiangcloud/linkchain/types.Transaction).Hash => stub_c05v_hash
//verif:filestub (*github.com/lianxiangcloud/linkchain/types.Transaction).From => stub_c05v_from

var c05vSenders = []common.Address{{0xA1}, {0xA2}}

func stub_c05v_hash(tx *types.Transaction) common.Hash { return common.Hash{0x7C, byte(tx.Nonce())} }
func stub_c05v_from(tx *types.Transaction) (common.Address, error) {
	return c05vSenders[tx.Nonce()%2], nil
}

type c05vPool struct {
	types.Mempool
	cached map[common.Hash]types.Tx
}

func (p *c05vPool) GetTxFromCache(h common.Hash) types.Tx {
	if tx, ok := p.cached[h]; ok {
		return tx
	}
	return nil
}

type c05vIter struct {
	dbm.Iterator
	vals [][]byte
	pos  int
}

func (it *c05vIter) Valid() bool   { return it.pos < len(it.vals) }
func (it *c05vIter) Next() bool    { it.pos++; return it.pos < len(it.vals) }
func (it *c05vIter) Value() []byte { return it.vals[it.pos] }

type c05vDB struct {
	dbm.DB
	black [][]byte
}

func (d *c05vDB) NewIteratorWithPrefix(prefix []byte) dbm.Iterator { return &c05vIter{vals: d.black} }

func c05vBlock(n int, to common.Address) *types.Block {
	b := &types.Block{Header: &types.Header{}, Data: &types.Data{}}
	for i := 0; i < n; i++ {
		b.Data.Txs = append(b.Data.Txs, types.NewTransaction(uint64(i), to, big.NewInt(1), 21000, big.NewInt(1), nil))
	}
	return b
}

//verif:opt unwind=16 budget_s=600
func H_C05_block_verdict_does_not_depend_on_the_mempool_cache() {
	to := common.Address{0xB0}
	// the blacklist: nobody, a sender, the other sender, or the recipient
	var black [][]byte
	switch verifCase(4) {
	case 1:
		black = [][]byte{c05vSenders[0][:]}
	case 2:
		black = [][]byte{c05vSenders[1][:]}
	case 3:
		black = [][]byte{to[:]}
	}
	types.BlacklistInstance.Init(&c05vDB{black: black})
	n := 1 + verifCase(2)
	warm := &c05vPool{cached: map[common.Hash]types.Tx{}}
	for _, tx := range c05vBlock(n, to).Data.Txs {
		warm.cached[tx.Hash()] = tx // the node saw the same transactions in its mempool (equal objects, not the block's)
	}
	cold := &c05vPool{cached: map[common.Hash]types.Tx{}}
	verifLazyGoroutines(verifCase(2) == 1)
	errWarm := (&LinkApplication{mempool: warm}).verifyTxsOnProcess(c05vBlock(n, to))
	errCold := (&LinkApplication{mempool: cold}).verifyTxsOnProcess(c05vBlock(n, to))
	verifReach("both-nodes-decided")
	verifAssert((errWarm == nil) == (errCold == nil), "block-verdict-does-not-depend-on-the-mempool-cache")
	if len(black) == 0 {
		verifAssert(errWarm == nil && errCold == nil, "block-of-recoverable-senders-passes-the-precheck")
	}
	if len(black) > 0 && (verifCaseIs(black[0], to[:]) || n == 2 || verifCaseIs(black[0], c05vSenders[0][:])) {
		verifAssert(errCold != nil, "blacklisted-party-fails-the-precheck")
	}
}

func verifCaseIs(a, b []byte) bool { return string(a) == string(b) }
