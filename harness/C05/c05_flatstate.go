//verif:pkg state
package state

// C05 (one mechanism) — the flat-state (key/value mode) root does not depend on the order in which the
// updates of a block reach the trie. StateDB.Finalise, stateObject.updateTrie and StateDB.Commit feed
// the trie from Go maps, whose iteration order differs from run to run and from node to node; the
// real wrappedTrie.TryUpdate / TryDelete / Hash (container/heap over the serialized updates) must
// give the same root for every order of the same updates. Keccak-256 is a collision-free
// uninterpreted function.

//verif:filestub github.com/lianxiangcloud/linkchain/state.keyHash => stub_c05_keyhash
//verif:filestub github.com/lianxiangcloud/linkchain/libs/crypto.Keccak256 => stub_c05_keccak

func stub_c05_keyhash(key []byte) []byte { return verifHashBytes("keccak", 32, key) }
func stub_c05_keccak(data ...[]byte) []byte {
	var all []byte
	for _, d := range data {
		all = append(all, d...)
	}
	return verifHashBytes("keccak", 32, all)
}

func c05Trie() *wrappedTrie {
	return &wrappedTrie{db: &wrappedDB{}, serial: &kvHeap{}, updates: map[string][]byte{}}
}

type c05Update struct {
	key, value []byte
	del        bool
}

func c05Apply(t *wrappedTrie, u c05Update) {
	if u.del {
		t.TryDelete(u.key)
	} else {
		t.TryUpdate(u.key, u.value)
	}
}

//verif:opt unwind=24 budget_s=900 split=12
func H_C05_flat_state_root_is_order_independent() {
	n := 3 // with two updates a binary heap's array order already is the sorted order
	if verifThorough() {
		n = 3
	}
	ups := make([]c05Update, n)
	for i := range ups {
		ups[i] = c05Update{key: verifNondetBytes(1), value: verifNondetBytes(1 + verifCase(2)), del: verifNondetBool()}
	}
	perms := [][]int{{0, 1, 2}, {0, 2, 1}, {1, 0, 2}, {1, 2, 0}, {2, 0, 1}, {2, 1, 0}}
	if n == 2 {
		perms = [][]int{{0, 1}, {1, 0}}
	}
	pm := perms[verifCase(len(perms))]
	// the same updates, to different keys, in two orders (updates of ONE key are ordered by the
	// execution itself, not by a map)
	for i := 0; i < n; i++ {
		for j := 0; j < i; j++ {
			verifAssume(ups[i].key[0] != ups[j].key[0])
		}
	}
	a, b := c05Trie(), c05Trie()
	for i := 0; i < n; i++ {
		c05Apply(a, ups[i])
		c05Apply(b, ups[pm[i]])
	}
	verifReach("applied")
	verifAssert(a.Hash() == b.Hash(), "same-updates-any-order-same-root")
	for i := 0; i < n; i++ {
		kh := string(keyHash(ups[i].key))
		verifAssert(string(a.updates[kh]) == string(b.updates[kh]), "same-updates-any-order-same-pending-content")
	}
}
