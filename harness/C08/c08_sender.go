//verif:pkg types
package types

import (
	"math/big"

	"github.com/lianxiangcloud/linkchain/libs/common"
)

// C08 — sender derivation of account-based transactions: which signature values are accepted, what
// exactly is handed to the public-key recovery, and that the signed hash covers every payload field.
// Environment: rlpHash and Keccak-256 are collision-free uninterpreted functions; crypto.Ecrecover is
// an uninterpreted function of (hash, 65-byte signature) that records its arguments.

//verif:filestub github.com/lianxiangcloud/linkchain/types.rlpHash => stub_c08_rlphash
//verif:filestub github.com/lianxiangcloud/linkchain/libs/crypto.Ecrecover => stub_c08_ecrecover
//verif:filestub github.com/lianxiangcloud/linkchain/libs/crypto.Keccak256 => stub_c08_keccak

var (
	c08RecHash []byte
	c08RecSig  []byte
	c08Recs    int
)

func stub_c08_rlphash(x interface{}) (h common.Hash) {
	copy(h[:], verifHashBytes("rlp", 32, x))
	return
}
func stub_c08_ecrecover(hash, sig []byte) ([]byte, error) {
	c08RecHash = append([]byte{}, hash...)
	c08RecSig = append([]byte{}, sig...)
	c08Recs++
	pub := append([]byte{4}, verifUFBytes("ecrecover", 64, hash, sig)...)
	return pub, nil
}
func stub_c08_keccak(data ...[]byte) []byte {
	var all []byte
	for _, d := range data {
		all = append(all, d...)
	}
	return verifHashBytes("keccak", 32, all)
}

func c08N() *big.Int {
	n, _ := new(big.Int).SetString("fffffffffffffffffffffffffffffffebaaedce6af48a03bbfd25e8cd0364141", 16)
	return n
}

// a non-negative integer below 2^64 (a pure integer unknown: no machine-word conversion)
func c08Small() *big.Int {
	x := verifNondetBig()
	verifAssume(x.Sign() >= 0 && x.BitLen() <= 64)
	return x
}

func c08Tx() *txdata {
	to := common.Address{0x11}
	d := &txdata{AccountNonce: verifNondetUint64(), Price: c08Small(), GasLimit: verifNondetUint64(),
		Recipient: &to, Amount: c08Small(), Payload: verifNondetBytes(2)}
	d.V, d.R, d.S = verifNondetBig(), verifNondetBig(), verifNondetBig()
	verifAssume(d.V.Sign() >= 0 && d.R.Sign() >= 0 && d.S.Sign() >= 0) // decoded as unsigned integers
	return d
}

// which (v, r, s) are accepted for a verifier with chain parameter p, and what is recovered from
//verif:opt unwind=12 budget_s=900 split=14
func H_C08_accepted_signature_values() {
	// chain parameter and v from boundary values (a symbolic v goes through BitLen/Uint64, i.e. mixed
	// integer/bit-vector reasoning no back end finishes); r and s stay arbitrary integers
	ps := []int64{1}
	if verifThorough() {
		ps = []int64{0, 1, 29154}
	}
	pv := ps[verifCase(len(ps))]
	p := big.NewInt(pv)
	signer := NewSTDEIP155Signer(p)
	d := c08Tx()
	vs := []int64{26, 27, 28, 2*pv + 35, 2*pv + 36, 2*pv + 37, -1}
	if verifThorough() {
		vs = []int64{0, 1, 26, 27, 28, 29, 2*pv + 34, 2*pv + 35, 2*pv + 36, 2*pv + 37, 255, 256, 1 << 40, -1}
	}
	vv := vs[verifCase(len(vs))]
	d.V = big.NewInt(vv)
	if vv < 0 {
		d.V = new(big.Int).Lsh(big.NewInt(1), 70) // wider than a machine word
	}
	c08Recs = 0
	_, err := signer.Sender(d)
	verifReach("returned")
	if err != nil {
		return
	}
	verifReach("accepted")
	N := c08N()
	halfN := new(big.Int).Div(N, big.NewInt(2))
	verifAssert(d.R.Sign() > 0 && d.R.Cmp(N) < 0, "r-in-range")
	verifAssert(d.S.Sign() > 0 && d.S.Cmp(halfN) <= 0, "s-in-lower-half-no-malleable-twin")
	v27 := d.V.Cmp(big.NewInt(27)) == 0 || d.V.Cmp(big.NewInt(28)) == 0
	lo := new(big.Int).Add(new(big.Int).Mul(p, big.NewInt(2)), big.NewInt(35))
	hi := new(big.Int).Add(lo, big.NewInt(1))
	vProt := d.V.Cmp(lo) == 0 || d.V.Cmp(hi) == 0
	verifAssert(v27 || vProt, "v-is-legacy-or-this-chains-parameter")
	verifAssert(c08Recs == 1 && len(c08RecSig) == 65, "recovered-once-from-65-bytes")
	if c08Recs == 1 && len(c08RecSig) == 65 {
		var wantID byte
		if v27 {
			wantID = byte(d.V.Uint64() - 27)
		} else {
			wantID = byte(new(big.Int).Sub(d.V, lo).Uint64())
		}
		verifAssert(c08RecSig[64] == wantID && wantID <= 1, "recovery-id-from-v")
		var want common.Hash
		if v27 && !vProt {
			want = STDHomesteadSigner{}.Hash(d)
		} else {
			want = signer.Hash(d)
		}
		verifAssert(string(c08RecHash) == string(want[:]), "recovered-from-the-signers-hash-of-this-transaction")
	}
	// the chain parameter is bound only for protected signatures
	verifAssert(vProt, "accepted-signature-is-bound-to-this-chain")
}

// equal signing hash => equal value of every payload field and of the chain parameter
//verif:opt unwind=12 budget_s=900
func H_C08_signing_hash_covers_every_field() {
	a, b := c08Tx(), c08Tx()
	pa, pb := c08Small(), c08Small()
	if verifNondetBool() {
		b.Recipient = nil // contract creation
	} else {
		tb := common.Address{}
		copy(tb[:], verifNondetBytes(20))
		b.Recipient = &tb
	}
	ha := NewSTDEIP155Signer(pa).Hash(a)
	hb := NewSTDEIP155Signer(pb).Hash(b)
	verifAssume(ha == hb)
	verifReach("equal-hash-feasible")
	verifAssert(a.AccountNonce == b.AccountNonce, "hash-covers-nonce")
	verifAssert(a.Price.Cmp(b.Price) == 0, "hash-covers-price")
	verifAssert(a.GasLimit == b.GasLimit, "hash-covers-gas-limit")
	verifAssert(b.Recipient != nil && *a.Recipient == *b.Recipient, "hash-covers-recipient")
	verifAssert(a.Amount.Cmp(b.Amount) == 0, "hash-covers-amount")
	verifAssert(string(a.Payload) == string(b.Payload), "hash-covers-payload")
	verifAssert(pa.Cmp(pb) == 0, "hash-covers-chain-parameter")
}

// the sender cache never changes the answer: looking the sender of the same transaction up again -
// with the same verifier, or with a verifier for another chain parameter - gives exactly what a fresh
// derivation gives, rejected signatures included
//verif:opt unwind=12 budget_s=900 split=14
func H_C08_sender_cache_is_faithful() {
	pv := int64(1)
	signer := NewSTDEIP155Signer(big.NewInt(pv))
	other := NewSTDEIP155Signer(big.NewInt(pv + 1))
	d := c08Tx()
	vs := []int64{26, 27, 28, 2*pv + 35, 2*pv + 36, 2*pv + 37, 2*pv + 38}
	d.V = big.NewInt(vs[verifCase(len(vs))])
	a1, e1 := sender(signer, d)
	a2, e2 := sender(signer, d)
	verifReach("looked-up-twice")
	verifAssert((e1 == nil) == (e2 == nil), "second-lookup-accepts-iff-the-first-did")
	verifAssert(a1 == a2, "second-lookup-gives-the-same-sender")
	if e1 != nil {
		verifReach("rejected-signature-looked-up-twice")
	}
	a3, e3 := sender(other, d)
	af, ef := other.Sender(d)
	verifAssert((e3 == nil) == (ef == nil) && a3 == af, "lookup-under-another-chain-parameter-is-a-fresh-derivation")
}

// every v a verifier accepts: v is ANY integer below 2^72 (a bit-vector backed big integer, so that the
// BitLen / Uint64 / Sub / Div steps of isProtectedV, DeriveSignParam, recover and recoverPlain are
// decided for all values instead of a boundary table); r and s are fixed valid values. Accepted means
// v is one of the two legacy values or one of the two values of THIS verifier's chain parameter - a
// second encoding of an accepted signature (another v recovering the same signer over the same hash)
// would be a malleable twin.
//verif:opt unwind=12 budget_s=900 big_bv=1
func H_C08_every_accepted_v_is_legacy_or_this_chains_parameter() {
	ps := []int64{1, 29153}
	pv := ps[verifCase(len(ps))]
	signer := NewSTDEIP155Signer(big.NewInt(pv))
	to := common.Address{0x11}
	d := &txdata{AccountNonce: 1, Price: big.NewInt(1), GasLimit: 21000, Recipient: &to, Amount: big.NewInt(1)}
	d.V = new(big.Int).SetBytes(verifNondetBytes(9))
	d.R, d.S = big.NewInt(5), big.NewInt(7)
	c08Recs = 0
	_, err := signer.Sender(d)
	verifReach("returned")
	if err != nil {
		return
	}
	verifReach("accepted")
	lo := 2*pv + 35
	legacy := d.V.Cmp(big.NewInt(27)) == 0 || d.V.Cmp(big.NewInt(28)) == 0
	prot := d.V.Cmp(big.NewInt(lo)) == 0 || d.V.Cmp(big.NewInt(lo+1)) == 0
	verifAssert(legacy || prot, "every-accepted-v-is-legacy-or-this-chains-parameter")
	verifAssert(c08Recs == 1 && len(c08RecSig) == 65 && c08RecSig[64] <= 1, "recovered-once-with-a-recovery-id-of-zero-or-one")
	if prot && c08Recs == 1 && len(c08RecSig) == 65 {
		verifAssert(int64(c08RecSig[64]) == d.V.Int64()-lo, "recovery-id-is-v-minus-the-chains-base")
	}
}
