//verif:pkg app
package app

import (
	"math/big"

	"github.com/lianxiangcloud/linkchain/libs/common"
	dbm "github.com/lianxiangcloud/linkchain/libs/db"
	"github.com/lianxiangcloud/linkchain/libs/trie"
	"github.com/lianxiangcloud/linkchain/state"
	"github.com/lianxiangcloud/linkchain/types"
	"github.com/lianxiangcloud/linkchain/vm"
	"github.com/lianxiangcloud/linkchain/vm/evm"
)

// C06 (account side) / C06 (account transfers) — one account-to-account transaction through the real
// processTransaction.Transit (preTransit: checkNonce, buyGas, payIntrinsicGas; transitInputs,
// payTransferGas, transitOutputs, refundGas, setNonce) on the real state.StateDB:
//  * it executes only at the sender's exact next nonce, bumps the nonce by exactly one whenever it
//    executes (also when the transfer itself fails), and changes nothing when it is refused - so the
//    same signed transaction cannot execute twice (induction over the chain);
//  * native-coin value is conserved: what leaves the sender is what the receiver gets plus the gas
//    paid for (credited to the fee collector per block).
// The account/storage tries are harness byte maps, Keccak-256 an uninterpreted function.

//verif:filestub github.com/lianxiangcloud/linkchain/libs/ser.EncodeToBytes => stub_c06_encode
//verif:filestub github.com/lianxiangcloud/linkchain/libs/crypto.Keccak256Hash => stub_c06_keccakhash
//verif:filestub github.com/lianxiangcloud/linkchain/libs/crypto.Keccak256 => stub_c06_keccak
//verif:filestub (github.com/lianxiangcloud/linkchain/libs/common.Address).Hex => stub_c06_hex

func stub_c06_encode(val interface{}) ([]byte, error) { return []byte{0xC0}, nil }
func stub_c06_hex(a common.Address) string            { return "0xaddr" }
func stub_c06_keccakhash(data ...[]byte) (h common.Hash) {
	var all []byte
	for _, d := range data {
		all = append(all, d...)
	}
	copy(h[:], verifHashBytes("keccak", 32, all))
	return
}
func stub_c06_keccak(data ...[]byte) []byte {
	var all []byte
	for _, d := range data {
		all = append(all, d...)
	}
	return verifHashBytes("keccak", 32, all)
}

type c06Trie struct{ m map[string][]byte }

func (t *c06Trie) TryGet(key []byte) ([]byte, error)                       { return t.m[string(key)], nil }
func (t *c06Trie) TryUpdate(key, value []byte) error                       { t.m[string(key)] = value; return nil }
func (t *c06Trie) TryDelete(key []byte) error                              { delete(t.m, string(key)); return nil }
func (t *c06Trie) Hash() common.Hash                                       { return common.Hash{} }
func (t *c06Trie) GetKey(k []byte) []byte                                  { return k }
func (t *c06Trie) NodeIterator(start []byte) trie.NodeIterator             { return nil }
func (t *c06Trie) Prove(key []byte, l uint, proofDb dbm.Putter) error      { return nil }
func (t *c06Trie) Commit(onleaf trie.LeafCallback, h uint64) (common.Hash, error) {
	return common.Hash{}, nil
}

type c06DB struct{ main *c06Trie }

func (d *c06DB) OpenTrie(root common.Hash) (state.Trie, error) { return d.main, nil }
func (d *c06DB) OpenStorageTrie(addrHash, root common.Hash) (state.Trie, error) {
	return &c06Trie{m: map[string][]byte{}}, nil
}
func (d *c06DB) CopyTrie(t state.Trie) state.Trie                               { return t }
func (d *c06DB) ContractCode(addrHash, codeHash common.Hash) ([]byte, error)  { return nil, nil }
func (d *c06DB) ContractCodeSize(addrHash, codeHash common.Hash) (int, error) { return 0, nil }
func (d *c06DB) TrieDB() state.TrieDB                                          { return nil }

var (
	c06S = common.Address{0x51}
	c06R = common.Address{0x52}
)

// a non-negative integer below 2^64 (pure SMT Int)
func c06Amount() *big.Int {
	x := verifNondetBig()
	verifAssume(x.Sign() >= 0 && x.Cmp(new(big.Int).Lsh(big.NewInt(1), 64)) < 0)
	return x
}

//verif:opt unwind=12 budget_s=900 split=8
func H_C06_account_transfer_conserves_native_value() {
	txType := []string{types.TxNormal, types.TxToken, types.TxMultiSignAccount}[verifCase(3)]
	st, err := state.New(common.Hash{}, &c06DB{main: &c06Trie{m: map[string][]byte{}}})
	if err != nil {
		panic(err)
	}
	bS, bR := c06Amount(), c06Amount()
	nS := verifNondetUint64()
	st.SetBalance(c06S, bS)
	st.SetNonce(c06S, nS)
	if verifNondetBool() {
		st.SetBalance(c06R, bR)
	} else {
		bR = new(big.Int)
	}
	value, price := c06Amount(), c06Amount()
	gas := verifNondetUint64()
	txNonce := verifNondetUint64()
	tx := &processTransaction{
		Type: txType, Kind: types.AinAout,
		Inputs:     []txInput{{From: c06S, Value: value, Nonce: txNonce, Type: Ain}},
		Outputs:    []txOutput{{To: c06R, Amount: value, Type: Aout}},
		Gas:        gas, GasPrice: price, InitialGas: gas, RefundAddr: c06S,
		State: st, Hash: common.Hash{0x77},
	}
	res, vmerr, terr := tx.Transit()
	verifReach("transited")
	sAfter, rAfter := st.GetBalance(c06S), st.GetBalance(c06R)
	if terr != nil {
		verifReach("refused")
		verifAssert(st.GetNonce(c06S) == nS && sAfter.Cmp(bS) == 0 && rAfter.Cmp(bR) == 0, "refused-transaction-changes-nothing")
		return
	}
	verifReach("executed")
	_ = res
	verifAssert(txNonce == nS, "executes-only-at-the-exact-next-nonce")
	verifAssert(st.GetNonce(c06S) == nS+1, "execution-bumps-the-nonce-by-exactly-one")
	// conservation: sender + receiver + gas paid for = before
	paid := new(big.Int).Mul(new(big.Int).SetUint64(gas-tx.Gas), price)
	total := new(big.Int).Add(new(big.Int).Add(sAfter, rAfter), paid)
	verifAssert(tx.Gas <= gas, "never-more-gas-left-than-given")
	verifAssert(total.Cmp(new(big.Int).Add(bS, bR)) == 0, "native-value-is-conserved")
	verifAssert(sAfter.Sign() >= 0 && rAfter.Sign() >= 0, "no-negative-balance")
	if vmerr != nil {
		verifReach("transfer-failed")
		verifAssert(rAfter.Cmp(bR) == 0, "failed-transfer-moves-nothing-but-fees")
	} else {
		verifAssert(rAfter.Cmp(new(big.Int).Add(bR, value)) == 0, "receiver-gets-exactly-the-value")
	}
}

// ---- contract calls: the virtual machine is cut to its contract with Transit ----
//
// c06VM stands for the EVM/WASM machine behind VmFactory.GetRealVm. Like the real UTXOCall it credits
// the call value to the contract, runs (here: an arbitrary outcome), and on failure takes the credit
// back; it hands back at most the gas it was given, and its fee refunds never exceed what it consumed.
// Everything else - nonce check, buying gas, intrinsic and value-transfer fee, debit of the inputs,
// refund, revert on failure, fee record - is the real Transit.
type c06VM struct {
	vm.VmInterface
	st *state.StateDB
}

var c06VMRefund uint64

func (m *c06VM) Reset(types.Message)          {}
func (m *c06VM) SetToken(addr common.Address) {}
func (m *c06VM) GetOTxs() []types.BalanceRecord { return nil }
func (m *c06VM) RefundFee() uint64            { return c06VMRefund }
func (m *c06VM) RefundAllFee() uint64         { return c06VMRefund }
func (m *c06VM) UTXOCall(c types.ContractRef, addr, token common.Address, input []byte, gas uint64, value *big.Int) ([]byte, uint64, uint64, error) {
	left := verifNondetUint64()
	verifAssume(left <= gas)
	c06VMRefund = verifNondetUint64()
	verifAssume(c06VMRefund <= gas-left)
	// as the real UTXOCall: snapshot, credit the value to the callee, run, and on failure go back to the snapshot
	snapshot := m.st.Snapshot()
	m.st.AddTokenBalance(addr, token, value)
	if verifNondetBool() {
		m.st.RevertToSnapshot(snapshot)
		return nil, left, 0, evm.ErrOutOfGas
	}
	return nil, left, 0, nil
}

var c06VMInst *c06VM

func stub_c06_getvm(v *vm.VmFactory, code []byte, toPtr *common.Address) vm.VmInterface { return c06VMInst }

var c06C = common.Address{0xC3}

//verif:stub (*github.com/lianxiangcloud/linkchain/vm.VmFactory).GetRealVm => stub_c06_getvm
//verif:opt unwind=12 budget_s=900 split=9
func H_C06_contract_call_conserves_native_value() {
	st, err := state.New(common.Hash{}, &c06DB{main: &c06Trie{m: map[string][]byte{}}})
	if err != nil {
		panic(err)
	}
	bS, bC := c06Amount(), c06Amount()
	nS := verifNondetUint64()
	st.SetBalance(c06S, bS)
	st.SetNonce(c06S, nS)
	st.SetBalance(c06C, bC)
	st.SetCode(c06C, []byte{0x60, 0x00})
	// the value sent along: nothing, one wei, or 100 coins (the value-transfer fee is a step function of it)
	value := []*big.Int{big.NewInt(0), big.NewInt(1), new(big.Int).Mul(big.NewInt(100), big.NewInt(1e18))}[verifCase(3)]
	// gas accounting is linear in the price; with a symbolic price the solver would have to prove
	// (a-b)*p = a*p - b*p over nested conversions - a few representative prices instead
	price := big.NewInt([]int64{0, 1, 7}[verifCase(3)])
	gas := verifNondetUint64()
	c06VMInst = &c06VM{st: st}
	c06VMRefund = 0
	cerrID = []byte{0x08, 0xc3, 0x79, 0xa0} // selector of Error(string); its initialiser (abi.JSON, reflective) is not encoded
	tx := &processTransaction{
		Type: types.TxNormal, Kind: types.AinAout,
		Inputs:  []txInput{{From: c06S, Value: value, Nonce: nS, Type: Ain}},
		Outputs: []txOutput{{To: c06C, Amount: value, Type: Cout}},
		Gas:     gas, GasPrice: price, InitialGas: gas, RefundAddr: c06S,
		State: st, Hash: common.Hash{0x78}, Vmenv: &vm.VmFactory{},
	}
	res, vmerr, terr := tx.Transit()
	verifReach("call-transited")
	sAfter, cAfter := st.GetBalance(c06S), st.GetBalance(c06C)
	if terr != nil {
		// a refused transaction makes the whole block invalid (its state is thrown away by the caller);
		// what matters here is that it did not execute
		verifAssert(st.GetNonce(c06S) == nS && cAfter.Cmp(bC) == 0, "refused-call-does-not-execute")
		return
	}
	verifReach("call-executed")
	verifAssert(st.GetNonce(c06S) == nS+1, "call-bumps-the-nonce-by-exactly-one")
	verifAssert(tx.Gas <= gas, "call-never-leaves-more-gas-than-given")
	verifAssert(res.Gas == gas-tx.Gas, "reported-gas-is-the-gas-paid-for")
	paid := new(big.Int).Mul(new(big.Int).SetUint64(gas-tx.Gas), price)
	verifAssert(res.Fee.Cmp(paid) == 0, "reported-fee-is-gas-paid-for-times-price")
	total := new(big.Int).Add(new(big.Int).Add(sAfter, cAfter), paid)
	verifAssert(total.Cmp(new(big.Int).Add(bS, bC)) == 0, "call-conserves-native-value")
	verifAssert(sAfter.Sign() >= 0 && cAfter.Sign() >= 0, "call-leaves-no-negative-balance")
	if vmerr != nil {
		verifReach("call-failed")
		verifAssert(cAfter.Cmp(bC) == 0, "failed-call-moves-nothing-but-fees")
		verifAssert(sAfter.Cmp(new(big.Int).Sub(bS, paid)) == 0, "failed-call-costs-the-sender-exactly-the-fee")
	} else {
		verifAssert(cAfter.Cmp(new(big.Int).Add(bC, value)) == 0, "contract-gets-exactly-the-value")
	}
}

var c06Tok = common.Address{0x70}

// The same for a token: a token transaction sending token value to an existing contract that has never
// held that token. Token value is conserved between sender and contract, a failed call leaves the
// contract without the token and the sender with all of it, and the fee is paid in the native coin.
//verif:stub (*github.com/lianxiangcloud/linkchain/vm.VmFactory).GetRealVm => stub_c06_getvm
//verif:opt unwind=12 budget_s=900 split=6
func H_C06_token_call_conserves_token_value() {
	st, err := state.New(common.Hash{}, &c06DB{main: &c06Trie{m: map[string][]byte{}}})
	if err != nil {
		panic(err)
	}
	bS, tS := c06Amount(), c06Amount()
	nS := verifNondetUint64()
	st.SetBalance(c06S, bS)
	st.SetTokenBalance(c06S, c06Tok, tS)
	st.SetNonce(c06S, nS)
	st.SetBalance(c06C, big.NewInt(5)) // the contract exists and has never held the token
	st.SetCode(c06C, []byte{0x60, 0x00})
	value := []*big.Int{big.NewInt(0), big.NewInt(1), big.NewInt(1000)}[verifCase(3)]
	price := big.NewInt([]int64{0, 3}[verifCase(2)])
	gas := verifNondetUint64()
	c06VMInst = &c06VM{st: st}
	c06VMRefund = 0
	cerrID = []byte{0x08, 0xc3, 0x79, 0xa0}
	tx := &processTransaction{
		Type: types.TxToken, Kind: types.AinAout, TokenAddress: c06Tok,
		Inputs:  []txInput{{From: c06S, Value: value, Nonce: nS, Type: Ain}},
		Outputs: []txOutput{{To: c06C, Amount: value, Type: Cout}},
		Gas:     gas, GasPrice: price, InitialGas: gas, RefundAddr: c06S,
		State: st, Hash: common.Hash{0x79}, Vmenv: &vm.VmFactory{},
	}
	_, vmerr, terr := tx.Transit()
	verifReach("token-call-transited")
	if terr != nil {
		verifAssert(st.GetNonce(c06S) == nS && st.GetTokenBalance(c06C, c06Tok).Sign() == 0, "refused-token-call-does-not-execute")
		return
	}
	verifReach("token-call-executed")
	tSAfter, tCAfter := st.GetTokenBalance(c06S, c06Tok), st.GetTokenBalance(c06C, c06Tok)
	verifAssert(new(big.Int).Add(tSAfter, tCAfter).Cmp(tS) == 0, "token-call-conserves-token-value")
	verifAssert(tSAfter.Sign() >= 0 && tCAfter.Sign() >= 0, "token-call-leaves-no-negative-token-balance")
	paid := new(big.Int).Mul(new(big.Int).SetUint64(gas-tx.Gas), price)
	verifAssert(tx.Gas <= gas, "token-call-never-leaves-more-gas-than-given")
	verifAssert(st.GetBalance(c06S).Cmp(new(big.Int).Sub(bS, paid)) == 0, "token-call-fee-is-paid-in-the-native-coin")
	verifAssert(st.GetBalance(c06C).Cmp(big.NewInt(5)) == 0, "token-call-does-not-touch-the-contracts-native-balance")
	if vmerr != nil {
		verifReach("token-call-failed")
		verifAssert(tCAfter.Sign() == 0 && tSAfter.Cmp(tS) == 0, "failed-token-call-moves-no-token")
	} else {
		verifAssert(tCAfter.Cmp(value) == 0, "contract-gets-exactly-the-token-value")
	}
}

// Value leaving the confidential pool for a contract: a confidential-input transaction (no account
// input; the gas was bought on the hidden side, the public amount comes out of the hidden inputs) pays
// `value` to a contract - with or without a confidential change output, i.e. kind Uin|Aout or
// Uin|Aout|Uout. Whatever the call does, the value that entered the account side is all there
// afterwards: with the contract when the call succeeds, with the refund address when it fails, plus
// the fee for the gas used and the refund of the gas not used - nothing is created, nothing vanishes.
//verif:stub (*github.com/lianxiangcloud/linkchain/vm.VmFactory).GetRealVm => stub_c06_getvm
//verif:opt unwind=12 budget_s=900 split=8
func H_C06_value_leaving_the_confidential_pool_for_a_contract_is_conserved() {
	st, err := state.New(common.Hash{}, &c06DB{main: &c06Trie{m: map[string][]byte{}}})
	if err != nil {
		panic(err)
	}
	bR, bC := c06Amount(), c06Amount()
	refund := []common.Address{common.EmptyAddress, c06S}[verifCase(2)]
	st.SetBalance(refund, bR)
	st.SetBalance(c06C, bC)
	st.SetCode(c06C, []byte{0x60, 0x00})
	value := []*big.Int{big.NewInt(1), new(big.Int).Mul(big.NewInt(100), big.NewInt(1e18))}[verifCase(2)]
	kind := []types.UTXOKind{types.UinAout, types.UinAout | types.Uout}[verifCase(2)]
	price := big.NewInt(types.ParGasPrice)
	gas := verifNondetUint64()
	verifAssume(gas < 1<<40)
	c06VMInst = &c06VM{st: st}
	c06VMRefund = 0
	cerrID = []byte{0x08, 0xc3, 0x79, 0xa0}
	tx := &processTransaction{
		Type: types.TxUTXO, Kind: kind,
		Outputs: []txOutput{{To: c06C, Amount: value, Type: Cout}},
		Gas:     gas, GasPrice: price, InitialGas: gas, RefundAddr: refund,
		State: st, Hash: common.Hash{0x79}, Vmenv: &vm.VmFactory{},
	}
	res, vmerr, terr := tx.Transit()
	verifReach("confidential-call-transited")
	if terr != nil {
		verifAssert(st.GetBalance(c06C).Cmp(bC) == 0 && st.GetBalance(refund).Cmp(bR) == 0, "refused-confidential-call-does-not-execute")
		return
	}
	verifReach("confidential-call-executed")
	rAfter, cAfter := st.GetBalance(refund), st.GetBalance(c06C)
	paid := new(big.Int).Mul(new(big.Int).SetUint64(gas-tx.Gas), price)
	verifAssert(tx.Gas <= gas && res.Fee.Cmp(paid) == 0, "fee-is-the-gas-used-times-the-price")
	entered := new(big.Int).Add(value, new(big.Int).Mul(new(big.Int).SetUint64(gas), price))
	before := new(big.Int).Add(bR, bC)
	after := new(big.Int).Add(new(big.Int).Add(rAfter, cAfter), paid)
	verifAssert(after.Cmp(new(big.Int).Add(before, entered)) == 0, "value-that-left-the-pool-is-all-on-the-account-side")
	if vmerr != nil {
		verifReach("confidential-call-failed")
		verifAssert(cAfter.Cmp(bC) == 0, "failed-call-leaves-the-contract-as-it-was")
	} else {
		verifAssert(cAfter.Cmp(new(big.Int).Add(bC, value)) == 0, "contract-gets-exactly-the-value")
	}
}
