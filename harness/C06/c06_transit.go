//verif:pkg app
package app

import (
	"math/big"

	"github.com/lianxiangcloud/linkchain/libs/common"
	dbm "github.com/lianxiangcloud/linkchain/libs/db"
	"github.com/lianxiangcloud/linkchain/libs/trie"
	"github.com/lianxiangcloud/linkchain/state"
	"github.com/lianxiangcloud/linkchain/types"
)

// C06 (account side) / C06 (account transfers) — one account-to-account transaction through the real
// processTransaction.Transit (preTransit: checkNonce, buyGas, payIntrinsicGas; transitInputs,
// payTransferGas, transitOutputs, refundGas, setNonce) on the real state.StateDB:
//  * it executes only at the sender's exact next nonce, bumps the nonce by exactly one whenever it
//    executes (also when the transfer itself fails), and changes nothing when it is refused - so the
//    same signed transaction cannot execute twice (induction over the chain);
//  * native-coin value is conserved: what leaves the sender is what the receiver gets plus the gas
//    paid for (credited to the fee collector per block).
// The account/storage tries are harness byte maps, Keccak-256 an uninterpreted function.

//verif:filestub github.com/lianxiangcloud/linkchain/libs/ser.EncodeToBytes => stub_c06_encode
//verif:filestub github.com/lianxiangcloud/linkchain/libs/crypto.Keccak256Hash => stub_c06_keccakhash
//verif:filestub github.com/lianxiangcloud/linkchain/libs/crypto.Keccak256 => stub_c06_keccak
//verif:filestub (github.com/lianxiangcloud/linkchain/libs/common.Address).Hex => stub_c06_hex

func stub_c06_encode(val interface{}) ([]byte, error) { return []byte{0xC0}, nil }
func stub_c06_hex(a common.Address) string            { return "0xaddr" }
func stub_c06_keccakhash(data ...[]byte) (h common.Hash) {
	var all []byte
	for _, d := range data {
		all = append(all, d...)
	}
	copy(h[:], verifHashBytes("keccak", 32, all))
	return
}
func stub_c06_keccak(data ...[]byte) []byte {
	var all []byte
	for _, d := range data {
		all = append(all, d...)
	}
	return verifHashBytes("keccak", 32, all)
}

type c06Trie struct{ m map[string][]byte }

func (t *c06Trie) TryGet(key []byte) ([]byte, error)                       { return t.m[string(key)], nil }
func (t *c06Trie) TryUpdate(key, value []byte) error                       { t.m[string(key)] = value; return nil }
func (t *c06Trie) TryDelete(key []byte) error                              { delete(t.m, string(key)); return nil }
func (t *c06Trie) Hash() common.Hash                                       { return common.Hash{} }
func (t *c06Trie) GetKey(k []byte) []byte                                  { return k }
func (t *c06Trie) NodeIterator(start []byte) trie.NodeIterator             { return nil }
func (t *c06Trie) Prove(key []byte, l uint, proofDb dbm.Putter) error      { return nil }
func (t *c06Trie) Commit(onleaf trie.LeafCallback, h uint64) (common.Hash, error) {
	return common.Hash{}, nil
}

type c06DB struct{ main *c06Trie }

func (d *c06DB) OpenTrie(root common.Hash) (state.Trie, error) { return d.main, nil }
func (d *c06DB) OpenStorageTrie(addrHash, root common.Hash) (state.Trie, error) {
	return &c06Trie{m: map[string][]byte{}}, nil
}
func (d *c06DB) CopyTrie(t state.Trie) state.Trie                               { return t }
func (d *c06DB) ContractCode(addrHash, codeHash common.Hash) ([]byte, error)  { return nil, nil }
func (d *c06DB) ContractCodeSize(addrHash, codeHash common.Hash) (int, error) { return 0, nil }
func (d *c06DB) TrieDB() state.TrieDB                                          { return nil }

var (
	c06S = common.Address{0x51}
	c06R = common.Address{0x52}
)

// a non-negative integer below 2^64 (pure SMT Int)
func c06Amount() *big.Int {
	x := verifNondetBig()
	verifAssume(x.Sign() >= 0 && x.Cmp(new(big.Int).Lsh(big.NewInt(1), 64)) < 0)
	return x
}

//verif:opt unwind=12 budget_s=900 split=8
func H_C06_account_transfer_conserves_native_value() {
	txType := []string{types.TxNormal, types.TxToken, types.TxMultiSignAccount}[verifCase(3)]
	st, err := state.New(common.Hash{}, &c06DB{main: &c06Trie{m: map[string][]byte{}}})
	if err != nil {
		panic(err)
	}
	bS, bR := c06Amount(), c06Amount()
	nS := verifNondetUint64()
	st.SetBalance(c06S, bS)
	st.SetNonce(c06S, nS)
	if verifNondetBool() {
		st.SetBalance(c06R, bR)
	} else {
		bR = new(big.Int)
	}
	value, price := c06Amount(), c06Amount()
	gas := verifNondetUint64()
	txNonce := verifNondetUint64()
	tx := &processTransaction{
		Type: txType, Kind: types.AinAout,
		Inputs:     []txInput{{From: c06S, Value: value, Nonce: txNonce, Type: Ain}},
		Outputs:    []txOutput{{To: c06R, Amount: value, Type: Aout}},
		Gas:        gas, GasPrice: price, InitialGas: gas, RefundAddr: c06S,
		State: st, Hash: common.Hash{0x77},
	}
	res, vmerr, terr := tx.Transit()
	verifReach("transited")
	sAfter, rAfter := st.GetBalance(c06S), st.GetBalance(c06R)
	if terr != nil {
		verifReach("refused")
		verifAssert(st.GetNonce(c06S) == nS && sAfter.Cmp(bS) == 0 && rAfter.Cmp(bR) == 0, "refused-transaction-changes-nothing")
		return
	}
	verifReach("executed")
	_ = res
	verifAssert(txNonce == nS, "executes-only-at-the-exact-next-nonce")
	verifAssert(st.GetNonce(c06S) == nS+1, "execution-bumps-the-nonce-by-exactly-one")
	// conservation: sender + receiver + gas paid for = before
	paid := new(big.Int).Mul(new(big.Int).SetUint64(gas-tx.Gas), price)
	total := new(big.Int).Add(new(big.Int).Add(sAfter, rAfter), paid)
	verifAssert(tx.Gas <= gas, "never-more-gas-left-than-given")
	verifAssert(total.Cmp(new(big.Int).Add(bS, bR)) == 0, "native-value-is-conserved")
	verifAssert(sAfter.Sign() >= 0 && rAfter.Sign() >= 0, "no-negative-balance")
	if vmerr != nil {
		verifReach("transfer-failed")
		verifAssert(rAfter.Cmp(bR) == 0, "failed-transfer-moves-nothing-but-fees")
	} else {
		verifAssert(rAfter.Cmp(new(big.Int).Add(bR, value)) == 0, "receiver-gets-exactly-the-value")
	}
}
