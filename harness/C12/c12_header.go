//verif:pkg types
package types

import (
	"github.com/lianxiangcloud/linkchain/libs/common"
	"github.com/lianxiangcloud/linkchain/libs/crypto/merkle"
)

// C12 — the block hash commits to every hashed header field.
// Leaf encodings (ser.EncodeToBytes of one field + Keccak) and the Merkle node
// hash are collision-free uninterpreted functions; the real Header.Hash,
// SimpleHashFromMap, simpleMap.Set/Sort/Hash, hashKVPairs, SimpleHashFromHashers
// and simpleHashFromHashes are executed.

func stub_c12_hasher(h hasher) []byte        { return verifHashBytes("amino", 32, h.item) }
func stub_c12_kv(kv merkle.KVPair) []byte    { return verifHashBytes("kv", 32, kv.Key, kv.Value) }

func c12Hash() (h common.Hash) {
	b := verifNondetBytes(32)
	copy(h[:], b)
	return
}

func c12Header() *Header {
	h := &Header{}
	h.ChainID = string(verifNondetBytes(1 + verifCase(2)))
	h.Height = verifNondetUint64()
	copy(h.Coinbase[:], verifNondetBytes(20))
	h.Time = verifNondetUint64()
	h.NumTxs = verifNondetUint64()
	h.TotalTxs = verifNondetUint64()
	h.ParentHash = c12Hash()
	h.LastBlockID = BlockID{Hash: c12Hash(), PartsHeader: PartSetHeader{Total: verifNondetInt(), Hash: verifNondetBytes(32)}}
	h.LastCommitHash = c12Hash()
	h.ValidatorsHash = c12Hash()
	h.ConsensusHash = c12Hash()
	h.DataHash = c12Hash()
	h.StateHash = c12Hash()
	h.ReceiptHash = c12Hash()
	h.GasLimit = verifNondetUint64()
	h.GasUsed = verifNondetUint64()
	h.EvidenceHash = c12Hash()
	return h
}

//verif:stub github.com/lianxiangcloud/linkchain/libs/crypto/merkle.SimpleHashFromTwoHashes => stub_c12_h2
//verif:stub (github.com/lianxiangcloud/linkchain/types.hasher).Hash => stub_c12_hasher
//verif:stub (github.com/lianxiangcloud/linkchain/libs/crypto/merkle.KVPair).Hash => stub_c12_kv
//verif:opt unwind=40 budget_s=900 query_timeout_ms=120000
func H_C12_header_hash_commits() {
	a := c12Header()
	b := c12Header()
	ha := a.Hash()
	hb := b.Hash()
	verifReach("hashed")
	verifAssume(ha == hb)
	verifReach("equal-hash-feasible")
	verifAssert(a.ChainID == b.ChainID, "commits-ChainID")
	verifAssert(a.Height == b.Height, "commits-Height")
	verifAssert(a.Coinbase == b.Coinbase, "commits-Coinbase")
	verifAssert(a.Time == b.Time, "commits-Time")
	verifAssert(a.NumTxs == b.NumTxs, "commits-NumTxs")
	verifAssert(a.TotalTxs == b.TotalTxs, "commits-TotalTxs")
	verifAssert(a.ParentHash == b.ParentHash, "commits-ParentHash")
	verifAssert(a.LastBlockID.Equals(b.LastBlockID), "commits-LastBlockID")
	verifAssert(a.LastCommitHash == b.LastCommitHash, "commits-LastCommitHash")
	verifAssert(a.ValidatorsHash == b.ValidatorsHash, "commits-ValidatorsHash")
	verifAssert(a.ConsensusHash == b.ConsensusHash, "commits-ConsensusHash")
	verifAssert(a.DataHash == b.DataHash, "commits-DataHash")
	verifAssert(a.StateHash == b.StateHash, "commits-StateHash")
	verifAssert(a.ReceiptHash == b.ReceiptHash, "commits-ReceiptHash")
	verifAssert(a.GasLimit == b.GasLimit, "commits-GasLimit")
	verifAssert(a.GasUsed == b.GasUsed, "commits-GasUsed")
	verifAssert(a.EvidenceHash == b.EvidenceHash, "commits-EvidenceHash")
}
