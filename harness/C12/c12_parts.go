//verif:pkg types
package types

import (
	"bytes"
	"io"

	"github.com/lianxiangcloud/linkchain/libs/common"
	"github.com/lianxiangcloud/linkchain/libs/crypto/merkle"
)

// C12 — part sets reassemble only the original. Hashes are uninterpreted
// functions with the collision-freeness contract (verifHashBytes).

//verif:filestub github.com/lianxiangcloud/linkchain/libs/crypto/merkle.SimpleHashFromTwoHashes => stub_c12_h2
//verif:filestub github.com/lianxiangcloud/linkchain/libs/crypto.Keccak256 => stub_c12_keccak

func stub_c12_h2(left, right []byte) []byte { return verifHashBytes("h2", 32, left, right) }
func stub_c12_keccak(data ...[]byte) []byte  { return verifHashBytes("keccak", 32, data) }

func c12Data() ([]byte, int) {
	maxLen := 3
	if verifThorough() {
		maxLen = 5
	}
	n := 1 + verifCase(maxLen)
	partSize := 1 + verifCase(2)
	data := verifNondetBytes(n)
	return data, partSize
}

// A part with arbitrary index, bytes and aunts is accepted only if it is the
// genuine part at that index; rejected parts leave the set unchanged.
//verif:opt unwind=10 budget_s=900
func H_C12_forged_part() {
	data, partSize := c12Data()
	src := NewPartSetFromData(data, partSize)
	rx := NewPartSetFromHeader(src.Header())
	verifReach("built")
	idx := verifNondetInt()
	verifAssume(idx >= 0) // negative indices are decided under C16 (panic freedom)
	bl := verifCase(partSize + 2)
	naunts := verifCase(3)
	aunts := make([][]byte, naunts)
	for i := range aunts {
		aunts[i] = verifNondetBytes(32)
	}
	p := &Part{Index: idx, Bytes: verifNondetBytes(bl), Proof: merkle.SimpleProof{Aunts: aunts}}
	added, err := rx.AddPart(p)
	verifReach("returned")
	if added {
		verifReach("accepted")
		verifAssert(err == nil, "accepted-no-error")
		verifAssert(idx < src.Total(), "accepted-index-in-range")
		if idx < src.Total() {
			verifAssert(bytes.Equal(p.Bytes, src.GetPart(idx).Bytes), "accepted-only-genuine-bytes")
		}
		verifAssert(rx.Count() == 1 && rx.BitArray().GetIndex(idx), "accepted-counted-once")
	} else {
		verifAssert(rx.Count() == 0, "rejected-leaves-count")
		verifAssert(err != nil, "first-part-rejected-with-error")
		for i := 0; i < rx.Total(); i++ {
			verifAssert(rx.parts[i] == nil, "rejected-leaves-slots")
		}
	}
}

// Genuine parts are accepted in any order, duplicates are ignored, and the
// completed set reads back exactly the original bytes for any chunking.
//verif:opt unwind=12 budget_s=900
func H_C12_reassembly() {
	data, partSize := c12Data()
	src := NewPartSetFromData(data, partSize)
	total := src.Total()
	rx := NewPartSetFromHeader(src.Header())
	verifAssert(rx.HasHeader(src.Header()), "header-roundtrip")
	// arrival schedule: total+1 deliveries of arbitrary genuine parts (duplicates possible)
	seen := make([]bool, total)
	distinct := 0
	for k := 0; k < total+1; k++ {
		i := verifCase(total)
		g := src.GetPart(i)
		cp := &Part{Index: g.Index, Bytes: g.Bytes, Proof: g.Proof}
		added, err := rx.AddPart(cp)
		verifAssert(err == nil, "genuine-never-errors")
		verifAssert(added == !seen[i], "added-iff-new")
		if !seen[i] {
			seen[i] = true
			distinct++
		}
		verifAssert(rx.Count() == distinct, "count-is-distinct")
		verifAssert(rx.IsComplete() == (distinct == total), "complete-iff-all")
	}
	if !rx.IsComplete() {
		return
	}
	verifReach("complete")
	chunk := 1 + verifCase(3)
	r := rx.GetReader()
	var out []byte
	buf := make([]byte, chunk)
	for k := 0; k < len(data)+2; k++ {
		n, err := r.Read(buf)
		out = append(out, buf[:n]...)
		if err == io.EOF {
			break
		}
		verifAssert(err == nil, "read-no-error")
	}
	verifAssert(bytes.Equal(out, data), "reads-back-original")
}

// The block encoder is cut (C11 decides it): a block encodes to 4 bytes determined by the harness
// fields of its header, through whichever of the ser entry points MakePartSet uses.
func c12Enc(val interface{}) []byte {
	b := val.(*Block)
	return []byte{0xE0, byte(b.Height), byte(b.NumTxs), 0x0E}
}
func stub_c12_encodetobytes(val interface{}) ([]byte, error) { return c12Enc(val), nil }
func stub_c12_encode(w io.Writer, val interface{}) error {
	_, err := w.Write(c12Enc(val))
	return err
}
func stub_c12_encodewriter(w io.Writer, val interface{}) (int64, error) {
	n, err := w.Write(c12Enc(val))
	return int64(n), err
}

// The part set made for one block stays that block's part set whatever is made afterwards: the
// proposer keeps it (ProposalBlockParts, LockedBlockParts, ValidBlockParts) and gossips from it while
// later blocks are built. Its parts keep their bytes, are accepted by a receiver holding the
// original header, and reassemble to the original encoding.
//
//verif:stub github.com/lianxiangcloud/linkchain/libs/ser.EncodeToBytes => stub_c12_encodetobytes
//verif:stub github.com/lianxiangcloud/linkchain/libs/ser.Encode => stub_c12_encode
//verif:stub github.com/lianxiangcloud/linkchain/libs/ser.EncodeWriter => stub_c12_encodewriter
//verif:opt unwind=12 budget_s=600
func H_C12_partset_of_a_block_outlives_later_blocks() {
	a := &Block{Header: &Header{Height: uint64(verifNondetByte()), NumTxs: uint64(verifNondetByte())}, Data: &Data{}}
	b := &Block{Header: &Header{Height: uint64(verifNondetByte()), NumTxs: uint64(verifNondetByte())}, Data: &Data{}}
	partSize := 1 + verifCase(3)
	psA := a.MakePartSet(partSize)
	want := c12Enc(a)
	hdr := psA.Header()
	for k := 0; k < 1+verifCase(2); k++ {
		b.MakePartSet(partSize) // later blocks of the same node
	}
	verifAssert(psA.HasHeader(hdr), "header-unchanged")
	rx := NewPartSetFromHeader(hdr)
	var got []byte
	for i := 0; i < psA.Total(); i++ {
		g := psA.GetPart(i)
		got = append(got, g.Bytes...)
		// as it arrives over the wire: a fresh Part without the sender's cached hash
		added, err := rx.AddPart(&Part{Index: g.Index, Bytes: append([]byte(nil), g.Bytes...), Proof: g.Proof})
		verifAssert(added && err == nil, "kept-parts-still-verify-against-the-original-header")
	}
	verifAssert(bytes.Equal(got, want), "kept-parts-still-hold-the-original-bytes")
	verifReach("checked")
}

// a transaction known by its hash only
type c12Tx struct {
	Tx
	h common.Hash
}

func (t *c12Tx) Hash() common.Hash { return t.h }

func c12TxList(n int) Txs {
	txs := make(Txs, n)
	for i := range txs {
		var h common.Hash
		copy(h[:], verifNondetBytes(32))
		txs[i] = &c12Tx{h: h}
	}
	return txs
}

// The transaction root of a block (Data.Hash -> Header.DataHash) commits to every transaction at
// every position: two lists of the same length with the same root are the same list of hashes, so a
// body with any transaction replaced cannot keep the header's DataHash. (The inner hash is the
// collision-free uninterpreted function; what is checked is that the tree construction leaves no
// leaf out - at every length 1..6, odd ones included.)
//verif:opt unwind=12 budget_s=600 split=6 thorough.split=9
func H_C12_transaction_root_commits_to_every_transaction() {
	maxN := 6
	if verifThorough() {
		maxN = 9
	}
	n := 1 + verifCase(maxN)
	a, b := c12TxList(n), c12TxList(n)
	ra, rb := a.Hash(), b.Hash()
	verifReach("roots")
	if ra == rb {
		for i := 0; i < n; i++ {
			verifAssert(a[i].Hash() == b[i].Hash(), "equal-roots-mean-equal-transactions-at-every-position")
		}
	}
}

// The header is whatever a (Byzantine) proposer signed: any total, any root - 32 arbitrary bytes, or a
// missing / empty root. Two receivers hold that header and are each offered an arbitrary part for the
// same index with an arbitrary proof (0..2 aunts). Under one signed header an index admits at most one
// byte string (so no two nodes reassemble different blocks), and a header without a root admits nothing.
//verif:opt unwind=10 budget_s=900
func H_C12_one_signed_header_admits_one_byte_string_per_index() {
	total := 1 + verifCase(3)
	var root []byte
	switch verifCase(3) {
	case 1:
		root = []byte{}
	case 2:
		root = verifNondetBytes(32)
	}
	hdr := PartSetHeader{Total: total, Hash: root}
	idx := verifCase(total)
	var got [2][]byte
	var ok [2]bool
	for k := 0; k < 2; k++ {
		rx := NewPartSetFromHeader(hdr)
		naunts := verifCase(3)
		aunts := make([][]byte, naunts)
		for i := range aunts {
			aunts[i] = verifNondetBytes(32)
		}
		p := &Part{Index: idx, Bytes: verifNondetBytes(1 + verifCase(2)), Proof: merkle.SimpleProof{Aunts: aunts}}
		added, err := rx.AddPart(p)
		ok[k], got[k] = added, p.Bytes
		verifAssert(added == (err == nil), "first-offer-is-added-or-refused-with-an-error")
		if added {
			verifAssert(len(root) == 32, "header-without-a-root-admits-nothing")
			verifAssert(rx.Count() == 1, "admitted-part-counted")
		}
	}
	verifReach("both-offers-made")
	if ok[0] && ok[1] {
		verifReach("both-admitted")
		verifAssert(bytes.Equal(got[0], got[1]), "one-header-one-byte-string-per-index")
	}
}
