//verif:pkg types
package types

import (
	"bytes"
	"io"

	"github.com/lianxiangcloud/linkchain/libs/crypto/merkle"
)

// C12 — part sets reassemble only the original. Hashes are uninterpreted
// functions with the collision-freeness contract (verifHashBytes).

//verif:filestub github.com/lianxiangcloud/linkchain/libs/crypto/merkle.SimpleHashFromTwoHashes => stub_c12_h2
//verif:filestub github.com/lianxiangcloud/linkchain/libs/crypto.Keccak256 => stub_c12_keccak

func stub_c12_h2(left, right []byte) []byte { return verifHashBytes("h2", 32, left, right) }
func stub_c12_keccak(data ...[]byte) []byte  { return verifHashBytes("keccak", 32, data) }

func c12Data() ([]byte, int) {
	maxLen := 3
	if verifThorough() {
		maxLen = 5
	}
	n := 1 + verifCase(maxLen)
	partSize := 1 + verifCase(2)
	data := verifNondetBytes(n)
	return data, partSize
}

// A part with arbitrary index, bytes and aunts is accepted only if it is the
// genuine part at that index; rejected parts leave the set unchanged.
//verif:opt unwind=10 budget_s=900
func H_C12_forged_part() {
	data, partSize := c12Data()
	src := NewPartSetFromData(data, partSize)
	rx := NewPartSetFromHeader(src.Header())
	verifReach("built")
	idx := verifNondetInt()
	verifAssume(idx >= 0) // negative indices are decided under C16 (panic freedom)
	bl := verifCase(partSize + 2)
	naunts := verifCase(3)
	aunts := make([][]byte, naunts)
	for i := range aunts {
		aunts[i] = verifNondetBytes(32)
	}
	p := &Part{Index: idx, Bytes: verifNondetBytes(bl), Proof: merkle.SimpleProof{Aunts: aunts}}
	added, err := rx.AddPart(p)
	verifReach("returned")
	if added {
		verifReach("accepted")
		verifAssert(err == nil, "accepted-no-error")
		verifAssert(idx < src.Total(), "accepted-index-in-range")
		if idx < src.Total() {
			verifAssert(bytes.Equal(p.Bytes, src.GetPart(idx).Bytes), "accepted-only-genuine-bytes")
		}
		verifAssert(rx.Count() == 1 && rx.BitArray().GetIndex(idx), "accepted-counted-once")
	} else {
		verifAssert(rx.Count() == 0, "rejected-leaves-count")
		verifAssert(err != nil, "first-part-rejected-with-error")
		for i := 0; i < rx.Total(); i++ {
			verifAssert(rx.parts[i] == nil, "rejected-leaves-slots")
		}
	}
}

// Genuine parts are accepted in any order, duplicates are ignored, and the
// completed set reads back exactly the original bytes for any chunking.
//verif:opt unwind=12 budget_s=900
func H_C12_reassembly() {
	data, partSize := c12Data()
	src := NewPartSetFromData(data, partSize)
	total := src.Total()
	rx := NewPartSetFromHeader(src.Header())
	verifAssert(rx.HasHeader(src.Header()), "header-roundtrip")
	// arrival schedule: total+1 deliveries of arbitrary genuine parts (duplicates possible)
	seen := make([]bool, total)
	distinct := 0
	for k := 0; k < total+1; k++ {
		i := verifCase(total)
		g := src.GetPart(i)
		cp := &Part{Index: g.Index, Bytes: g.Bytes, Proof: g.Proof}
		added, err := rx.AddPart(cp)
		verifAssert(err == nil, "genuine-never-errors")
		verifAssert(added == !seen[i], "added-iff-new")
		if !seen[i] {
			seen[i] = true
			distinct++
		}
		verifAssert(rx.Count() == distinct, "count-is-distinct")
		verifAssert(rx.IsComplete() == (distinct == total), "complete-iff-all")
	}
	if !rx.IsComplete() {
		return
	}
	verifReach("complete")
	chunk := 1 + verifCase(3)
	r := rx.GetReader()
	var out []byte
	buf := make([]byte, chunk)
	for k := 0; k < len(data)+2; k++ {
		n, err := r.Read(buf)
		out = append(out, buf[:n]...)
		if err == io.EOF {
			break
		}
		verifAssert(err == nil, "read-no-error")
	}
	verifAssert(bytes.Equal(out, data), "reads-back-original")
}
