//verif:pkg consensus
package consensus

import (
	"encoding/binary"
	"time"

	cfg "github.com/lianxiangcloud/linkchain/config"
	cstypes "github.com/lianxiangcloud/linkchain/consensus/types"
	"github.com/lianxiangcloud/linkchain/libs/common"
	"github.com/lianxiangcloud/linkchain/libs/crypto"
	tmevents "github.com/lianxiangcloud/linkchain/libs/events"
	"github.com/lianxiangcloud/linkchain/libs/log"
	"github.com/lianxiangcloud/linkchain/types"
)

// C01 (voting discipline of one correct validator) — the local rules the agreement argument rests on,
// as one-step checks of the real enterPrevote / defaultDoPrevote / enterPrecommit from an abstract
// round state: at most one prevote and one precommit per round; a locked validator prevotes its lock;
// a precommit for a block only after more than 2/3 of the prevotes of that round for that block, and
// then the validator is locked on exactly that block in that round. The prevote sets are real VoteSets
// filled through the real AddVote. The step from these local rules to "no two correct nodes commit
// different blocks under every schedule with < 1/3 Byzantine power" is the textbook Tendermint
// induction (quorum intersection, decided under C03) and is NOT machine-checked here.

//verif:noop (*github.com/lianxiangcloud/linkchain/types.EventBus).Publish
//verif:noop (*github.com/lianxiangcloud/linkchain/consensus.ConsensusState).newStep
//verif:noopiface github.com/lianxiangcloud/linkchain/libs/events.EventSwitch
//verif:filestub (*github.com/lianxiangcloud/linkchain/consensus.ConsensusState).signAddVote => stub_c01_signaddvote
//verif:filestub (*github.com/lianxiangcloud/linkchain/consensus.BlockExecutor).ValidateBlock => stub_c01_validate
//verif:filestub (*github.com/lianxiangcloud/linkchain/types.Block).Hash => stub_c01_blockhash
//verif:filestub github.com/lianxiangcloud/linkchain/libs/ser.MarshalJSON => stub_c01_marshaljson
//verif:filestub github.com/lianxiangcloud/linkchain/types.CanonicalTime => stub_c01_ctime
//verif:filestub (github.com/lianxiangcloud/linkchain/types.BlockID).Key => stub_c01_blockkey
//verif:filestub (github.com/lianxiangcloud/linkchain/libs/crypto.PubKeyEd25519).VerifyBytes => stub_c01_verify
//verif:filestub (github.com/lianxiangcloud/linkchain/libs/crypto.PubKeyEd25519).Address => stub_c01_address
//verif:filestub (github.com/lianxiangcloud/linkchain/libs/crypto.SignatureEd25519).Equals => stub_c01_sigequals

type c01Rec struct {
	typ  byte
	hash []byte
}

var c01Votes []c01Rec

func stub_c01_signaddvote(cs *ConsensusState, type_ byte, hash []byte, header types.PartSetHeader) *types.Vote {
	c01Votes = append(c01Votes, c01Rec{type_, hash})
	return nil
}
func stub_c01_validate(be *BlockExecutor, status NewStatus, block *types.Block) error { return nil }
func stub_c01_blockhash(b *types.Block) common.Hash {
	if b == nil {
		return common.Hash{}
	}
	return common.Hash{0xB0, byte(b.NumTxs)} // harness blocks are identified by NumTxs
}
func stub_c01_marshaljson(o interface{}) ([]byte, error) { return verifHashBytes("json", 32, o), nil }
func stub_c01_ctime(t time.Time) string                  { return "T" }
func stub_c01_blockkey(b types.BlockID) string {
	var tot [8]byte
	binary.BigEndian.PutUint64(tot[:], uint64(b.PartsHeader.Total))
	return string(b.Hash[:]) + string(tot[:]) + string(b.PartsHeader.Hash)
}
func stub_c01_verify(pk crypto.PubKeyEd25519, msg []byte, sig crypto.Signature) bool { return true }
func stub_c01_address(pk crypto.PubKeyEd25519) crypto.Address                         { return crypto.Address{pk[0], pk[1]} }
func stub_c01_sigequals(sig crypto.SignatureEd25519, other crypto.Signature) bool {
	o, ok := other.(crypto.SignatureEd25519)
	return ok && o == sig
}

type c01App struct{ BlockChainApp }

func (c01App) CheckBlock(b *types.Block) bool { return true }

func c01Block(id byte) *types.Block {
	return &types.Block{Header: &types.Header{Height: 5, NumTxs: uint64(id)}, Data: &types.Data{}, LastCommit: &types.Commit{}}
}
func c01ID(id byte) types.BlockID {
	if id == 0 {
		return types.BlockID{}
	}
	return types.BlockID{Hash: common.Hash{0xB0, id}, PartsHeader: types.PartSetHeader{Total: 1, Hash: []byte{id}}}
}

const c01N = 3 // three validators of power 1: more than 2/3 means all three

// c01State: round r, an arbitrary lock, an arbitrary proposal block, and arbitrary prevotes of round r
// (each validator: none / nil / block 1 / block 2) added through the real AddVote.
// c01BareState: height 5, the given round, three validators, no votes, no lock, no proposal
func c01BareState(round int) (*ConsensusState, []*types.Validator) {
	vals := make([]*types.Validator, c01N)
	for i := range vals {
		pk := crypto.PubKeyEd25519{byte(i + 1), 0x55}
		vals[i] = &types.Validator{Address: pk.Address(), PubKey: pk, VotingPower: 1}
	}
	vs := &types.ValidatorSet{Validators: vals, Proposer: vals[0]}
	cs := &ConsensusState{}
	cs.Logger = log.Root()
	cs.config = &cfg.ConsensusConfig{}
	cs.appmgr = c01App{}
	cs.blockExec = &BlockExecutor{}
	cs.status = NewStatus{ChainID: "chain-A", LastBlockHeight: 4, LastRecover: true}
	cs.Height, cs.Round = 5, round
	cs.Validators, cs.LastValidators = vs, vs
	cs.Votes = cstypes.NewHeightVoteSet("chain-A", 5, vs)
	cs.Votes.SetRound(round + 1)
	cs.doPrevote = cs.defaultDoPrevote
	if !verifSymbolic() {
		// native replay: real (started) event bus, event switch and a no-op WAL; under the
		// engine event publication and newStep are no-ops
		bus := types.NewEventBus()
		bus.Start()
		cs.eventBus = bus
		cs.evsw = tmevents.NewEventSwitch()
		cs.wal = nilWAL{}
	}
	c01Votes = nil
	return cs, vals
}

func c01State(round int) (*ConsensusState, [3]int) {
	cs, vals := c01BareState(round)
	var tally [3]int // prevotes of this round for nil, block 1, block 2
	for i := 0; i < c01N; i++ {
		c := verifCase(4)
		if c == 0 {
			continue
		}
		id := byte(c - 1)
		tally[id]++
		v := &types.Vote{ValidatorAddress: vals[i].Address, ValidatorIndex: i, ValidatorSize: c01N, Height: 5, Round: round,
			Type: types.VoteTypePrevote, BlockID: c01ID(id), Signature: crypto.SignatureEd25519{byte(i)}}
		added, err := cs.Votes.AddVote(v, "peer")
		if !added || err != nil {
			panic("model: prevote not added")
		}
	}
	switch verifCase(3) {
	case 1:
		cs.LockedBlock, cs.LockedRound = c01Block(1), 0
		cs.LockedBlockParts = types.NewPartSetFromHeader(c01ID(1).PartsHeader)
	case 2:
		cs.LockedBlock, cs.LockedRound = c01Block(2), 0
		cs.LockedBlockParts = types.NewPartSetFromHeader(c01ID(2).PartsHeader)
	}
	switch verifCase(3) {
	case 1:
		cs.ProposalBlock = c01Block(1)
		cs.ProposalBlockParts = types.NewPartSetFromHeader(c01ID(1).PartsHeader)
	case 2:
		cs.ProposalBlock = c01Block(2)
		cs.ProposalBlockParts = types.NewPartSetFromHeader(c01ID(2).PartsHeader)
	}
	c01Votes = nil
	return cs, tally
}

func c01HashID(h []byte) byte {
	if len(h) == 0 {
		return 0
	}
	return h[1]
}

//verif:opt unwind=16 budget_s=900 split=48
func H_C01_one_prevote_per_round_and_locked_prevotes_lock() {
	sel := verifCase(4)
	cs, _ := c01State(1)
	steps := []cstypes.RoundStepType{cstypes.RoundStepNewRound, cstypes.RoundStepPropose, cstypes.RoundStepPrevote, cstypes.RoundStepPrecommit}
	cs.Step = steps[sel]
	locked := cs.LockedBlock
	cs.enterPrevote(5, 1)
	n1 := len(c01Votes)
	cs.enterPrevote(5, 1) // a second trigger in the same round (timeout and complete proposal can both fire)
	cs.enterPrevote(5, 0) // a stale trigger of an earlier round
	verifReach("triggered")
	verifAssert(len(c01Votes) == n1 && n1 <= 1, "at-most-one-prevote-per-round")
	if sel >= 2 {
		verifAssert(n1 == 0, "no-prevote-after-the-prevote-step")
	} else {
		verifAssert(n1 == 1 && c01Votes[0].typ == types.VoteTypePrevote, "prevote-cast-when-entering-the-step")
		if locked != nil {
			verifAssert(c01HashID(c01Votes[0].hash) == byte(locked.NumTxs), "locked-validator-prevotes-its-lock")
		}
	}
}

//verif:opt unwind=16 budget_s=900 split=48
func H_C01_precommit_only_after_two_thirds_prevotes() {
	sel := verifCase(3)
	cs, tally := c01State(1)
	steps := []cstypes.RoundStepType{cstypes.RoundStepPrevote, cstypes.RoundStepPrevoteWait, cstypes.RoundStepPrecommit}
	cs.Step = steps[sel]
	cs.enterPrecommit(5, 1)
	n1 := len(c01Votes)
	cs.enterPrecommit(5, 1)
	cs.enterPrecommit(5, 0)
	verifReach("triggered")
	verifAssert(len(c01Votes) == n1 && n1 <= 1, "at-most-one-precommit-per-round")
	if sel == 2 {
		verifAssert(n1 == 0, "no-precommit-after-the-precommit-step")
		return
	}
	verifAssert(n1 == 1 && c01Votes[0].typ == types.VoteTypePrecommit, "precommit-cast-when-entering-the-step")
	if n1 != 1 {
		return
	}
	id := c01HashID(c01Votes[0].hash)
	if id != 0 {
		verifReach("precommitted-a-block")
		verifAssert(tally[id] == c01N, "precommit-for-a-block-only-with-more-than-two-thirds-prevotes-for-it")
		verifAssert(cs.LockedBlock != nil && byte(cs.LockedBlock.NumTxs) == id && cs.LockedRound == 1, "precommit-locks-exactly-that-block-in-this-round")
	} else if tally[1] == c01N || tally[2] == c01N {
		// a polka for a block the validator does not have: it must not stay locked on another block
		verifAssert(cs.LockedBlock == nil, "polka-for-another-block-unlocks")
	}
}

var c01Entered int

func stub_c01_enter2(cs *ConsensusState, height uint64, round int) { c01Entered++ }

func c01Prevote(vals []*types.Validator, i int, round int, id byte) *types.Vote {
	return &types.Vote{ValidatorAddress: vals[i].Address, ValidatorIndex: i, ValidatorSize: c01N, Height: 5, Round: round,
		Type: types.VoteTypePrevote, BlockID: c01ID(id), Signature: crypto.SignatureEd25519{byte(i)}}
}

// The lock rule of addVote: a validator locked on B in round L gives the lock up only when it sees more
// than 2/3 prevotes, in a round vr with L < vr <= its current round, for something other than B - and
// then it does give it up. Prevotes of older rounds, of rounds ahead of the node, partial tallies and
// polkas for B itself leave the lock alone. (The step transitions addVote triggers are recording
// stubs: what they do is the subject of the other two harnesses.)
//
//verif:stub (*github.com/lianxiangcloud/linkchain/consensus.ConsensusState).enterNewRound => stub_c01_enter2
//verif:stub (*github.com/lianxiangcloud/linkchain/consensus.ConsensusState).enterPrevote => stub_c01_enter2
//verif:stub (*github.com/lianxiangcloud/linkchain/consensus.ConsensusState).enterPrevoteWait => stub_c01_enter2
//verif:stub (*github.com/lianxiangcloud/linkchain/consensus.ConsensusState).enterPrecommit => stub_c01_enter2
//verif:opt unwind=16 budget_s=900 split=12
func H_C01_lock_released_only_by_a_later_polka_for_something_else() {
	const R = 2 // the node is in round 2; rounds 0..3 are tracked
	cs, vals := c01BareState(R)
	L := verifCase(3) // the round it locked in: 0, 1 or 2
	cs.LockedBlock, cs.LockedRound = c01Block(1), L
	cs.LockedBlockParts = types.NewPartSetFromHeader(c01ID(1).PartsHeader)
	if verifNondetBool() {
		cs.ProposalBlock = c01Block(2)
		cs.ProposalBlockParts = types.NewPartSetFromHeader(c01ID(2).PartsHeader)
	}
	vr := verifCase(4)       // round of the arriving prevote: 0..3 (3 is ahead of the node)
	id := byte(verifCase(3)) // what the earlier prevotes of that round are for: nil, B (=1), another block (=2)
	have := verifCase(3)     // how many of them are already in
	for i := 0; i < have; i++ {
		added, err := cs.Votes.AddVote(c01Prevote(vals, i, vr, id), "peer")
		if !added || err != nil {
			panic("model: prevote not added")
		}
	}
	id2 := byte(verifCase(3)) // the arriving prevote (from the last validator)
	added, err := cs.addVote(c01Prevote(vals, c01N-1, vr, id2), "peer")
	verifAssert(added && err == nil, "prevote-added")
	polka := have == c01N-1 && id2 == id
	if cs.LockedBlock == nil {
		verifAssert(polka && id != 1 && L < vr && vr <= R, "lock-released-only-by-a-later-polka-for-something-else")
		verifAssert(cs.LockedBlockParts == nil, "released-lock-forgets-its-parts")
	} else {
		verifAssert(byte(cs.LockedBlock.NumTxs) == 1 && cs.LockedRound == L, "lock-otherwise-untouched")
		verifAssert(!(polka && id != 1 && L < vr && vr <= R), "later-polka-for-something-else-releases-the-lock")
	}
	verifReach("vote-handled")
}
