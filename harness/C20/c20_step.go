//verif:pkg vm/evm
package evm

import (
	"math/big"

	cfg "github.com/lianxiangcloud/linkchain/config"
	"github.com/lianxiangcloud/linkchain/libs/common"
	"github.com/lianxiangcloud/linkchain/types"
)

// C20 (step metering, crash freedom) — the REAL interpreter loop with the REAL instruction table
// (newConstantinopleInstructionSet: stack validation, memory-size functions, gas functions and the
// execute bodies of jump_table.go / stack_table.go / memory_table.go / gas_table.go / instructions.go)
// runs a program "PUSH v1 .. PUSH vk ; OP" for every opcode byte OP, every stack depth k the pushes
// can build (0..7) and symbolic operand values (each operand: a symbolic 9-byte number, or that
// number with every higher byte 0xFF, i.e. huge), with a symbolic amount of gas. What the frame does
// to other accounts and to sub-frames is cut at the EVM's own frame entry points (Call, CallCode,
// DelegateCall, StaticCall, Create, Create2 - decided on their own by the frame harnesses) and at the
// StateDB interface (arbitrary answers).
// Asserted: the run ends without a run-time failure (a panic is a violation by itself), never with
// more gas than it was given, the memory it leaves is paid for, and nothing is forwarded to a
// sub-frame that the frame did not have.

//verif:filestub (*github.com/lianxiangcloud/linkchain/vm/evm.EVM).Call => stub_c20s_call
//verif:filestub (*github.com/lianxiangcloud/linkchain/vm/evm.EVM).CallCode => stub_c20s_callcode
//verif:filestub (*github.com/lianxiangcloud/linkchain/vm/evm.EVM).DelegateCall => stub_c20s_delegatecall
//verif:filestub (*github.com/lianxiangcloud/linkchain/vm/evm.EVM).StaticCall => stub_c20s_staticcall
//verif:filestub (*github.com/lianxiangcloud/linkchain/vm/evm.EVM).Create => stub_c20s_create
//verif:filestub (*github.com/lianxiangcloud/linkchain/vm/evm.EVM).Create2 => stub_c20s_create2
//verif:filestub (*github.com/lianxiangcloud/linkchain/vm/evm.Memory).Resize => stub_c20s_resize
//verif:filestub (*github.com/lianxiangcloud/linkchain/vm/evm.Memory).Len => stub_c20s_len
//verif:filestub (*github.com/lianxiangcloud/linkchain/vm/evm.Memory).Set => stub_c20s_set
//verif:filestub (*github.com/lianxiangcloud/linkchain/vm/evm.Memory).Set32 => stub_c20s_set32
//verif:filestub (*github.com/lianxiangcloud/linkchain/vm/evm.Memory).Get => stub_c20s_get
//verif:filestub (*github.com/lianxiangcloud/linkchain/vm/evm.Memory).GetPtr => stub_c20s_getptr
//verif:filestub github.com/lianxiangcloud/linkchain/libs/common.RightPadBytes => stub_c20s_rightpad
//verif:filestub github.com/lianxiangcloud/linkchain/libs/math.Exp => stub_c20s_exp
//verif:filestub github.com/lianxiangcloud/linkchain/types.CalNewAmountGas => stub_c20s_amountgas
//verif:filestub github.com/lianxiangcloud/linkchain/libs/common.BigToAddress => stub_c20s_bigtoaddress
//verif:filestub github.com/lianxiangcloud/linkchain/libs/common.BigToHash => stub_c20s_bigtohash
//verif:filestub github.com/lianxiangcloud/linkchain/libs/crypto.Keccak256 => stub_c20s_keccak
//verif:filestub (github.com/lianxiangcloud/linkchain/libs/common.Address).Hex => stub_c20s_hex
//verif:noop github.com/lianxiangcloud/linkchain/types.GenBalanceRecord

var (
	c20sMemLen    uint64    // the frame's memory: only its length is kept (contents are the accessor harness's business)
	c20sGas0      uint64    // gas the frame was given
	c20sContract  *Contract // the running frame
	c20sWrites    int       // state writes seen behind the StateDB interface / value-carrying sub-frames
	c20sForwarded uint64 // gas handed to sub-frames
	c20sReturned  uint64 // gas handed back by sub-frames
	c20sFrames    int
	c20sGasAtCall uint64 // the frame's own gas when the sub-frame was entered
)

func c20sFrame(evm *EVM, c types.ContractRef, gas uint64) ([]byte, uint64, error) {
	c20sFrames++
	verifAssert(gas <= c20sGas0 || gas-c20sGas0 <= cfg.CallStipend, "nothing-is-forwarded-that-the-frame-did-not-have")
	c20sForwarded += gas
	back := verifNondetUint64()
	verifAssume(back <= gas)
	c20sReturned += back
	ret := verifNondetBytes(2)
	switch verifCase(3) {
	case 1:
		return ret, 0, ErrOutOfGas
	case 2:
		return ret, back, types.ExecutionReverted
	}
	return ret, back, nil
}

func stub_c20s_call(evm *EVM, c types.ContractRef, addr, token common.Address, input []byte, gas uint64, value *big.Int) ([]byte, uint64, uint64, error) {
	if value.Sign() != 0 {
		c20sWrites++
	}
	r, g, e := c20sFrame(evm, c, gas)
	return r, g, 0, e
}
func stub_c20s_callcode(evm *EVM, c types.ContractRef, addr common.Address, input []byte, gas uint64, value *big.Int) ([]byte, uint64, uint64, error) {
	r, g, e := c20sFrame(evm, c, gas)
	return r, g, 0, e
}
func stub_c20s_delegatecall(evm *EVM, c types.ContractRef, addr common.Address, input []byte, gas uint64) ([]byte, uint64, uint64, error) {
	r, g, e := c20sFrame(evm, c, gas)
	return r, g, 0, e
}
func stub_c20s_staticcall(evm *EVM, c types.ContractRef, addr common.Address, input []byte, gas uint64) ([]byte, uint64, uint64, error) {
	r, g, e := c20sFrame(evm, c, gas)
	return r, g, 0, e
}
func stub_c20s_create(evm *EVM, c types.ContractRef, code []byte, gas uint64, value *big.Int) ([]byte, common.Address, uint64, error) {
	c20sWrites++
	r, g, e := c20sFrame(evm, c, gas)
	return r, common.Address{0xC7}, g, e
}
func stub_c20s_create2(evm *EVM, c types.ContractRef, code []byte, gas uint64, endowment *big.Int, salt *big.Int) ([]byte, common.Address, uint64, error) {
	c20sWrites++
	r, g, e := c20sFrame(evm, c, gas)
	return r, common.Address{0xC8}, g, e
}

// the world state behind the interface: arbitrary answers, writes ignored
type c20sWorld struct {
	types.StateDB
}

func c20sSmallBig() *big.Int {
	x := verifNondetBig()
	verifAssume(x.Sign() >= 0 && x.Cmp(big.NewInt(1<<20)) <= 0)
	return x
}
func (w *c20sWorld) Exist(common.Address) bool        { return verifNondetBool() }
func (w *c20sWorld) Empty(common.Address) bool        { return verifNondetBool() }
func (w *c20sWorld) IsContract(common.Address) bool   { return verifNondetBool() }
func (w *c20sWorld) HasSuicided(common.Address) bool  { return verifNondetBool() }
func (w *c20sWorld) Suicide(common.Address) bool      { c20sWrites++; return true }
func (w *c20sWorld) AddRefund(uint64)                 {}
func (w *c20sWorld) SubRefund(uint64)                 {}
func (w *c20sWorld) GetRefund() uint64                { return 0 }
func (w *c20sWorld) AddLog(*types.Log) { c20sWrites++ }
func (w *c20sWorld) AddPreimage(common.Hash, []byte)  {}
func (w *c20sWorld) GetCodeSize(common.Address) int   { return int(verifNondetUint8()) }
func (w *c20sWorld) GetCode(common.Address) []byte    { return verifNondetBytes(verifCase(3)) }
func (w *c20sWorld) GetNonce(common.Address) uint64   { return 0 }
func (w *c20sWorld) SetNonce(common.Address, uint64)  {}
func (w *c20sWorld) GetCodeHash(common.Address) common.Hash {
	return common.Hash{verifNondetUint8()}
}
func (w *c20sWorld) GetState(common.Address, common.Hash) []byte {
	return verifNondetBytes(verifCase(3))
}
func (w *c20sWorld) SetState(common.Address, common.Hash, []byte) { c20sWrites++ }
func (w *c20sWorld) GetBalance(common.Address) *big.Int                          { return c20sSmallBig() }
func (w *c20sWorld) GetTokenBalance(a, t common.Address) *big.Int                { return c20sSmallBig() }
func (w *c20sWorld) AddBalance(common.Address, *big.Int) { c20sWrites++ }
func (w *c20sWorld) SubBalance(common.Address, *big.Int) { c20sWrites++ }
func (w *c20sWorld) AddTokenBalance(a, t common.Address, v *big.Int) { c20sWrites++ }
func (w *c20sWorld) SubTokenBalance(a, t common.Address, v *big.Int) { c20sWrites++ }
func (w *c20sWorld) GetTokenBalances(common.Address) types.TokenValues           { return nil }
func (w *c20sWorld) Snapshot() int                                               { return 0 }
func (w *c20sWorld) RevertToSnapshot(int)                                        {}

// ---- the frame's memory, abstracted to its length. Assume/guarantee with
// H_C20_memory_accessors_total_for_resized_regions: that harness shows the accessors total for every
// region the resize covered and for empty regions; here every access the REAL execute bodies make is
// shown to be such a region, and every resize to be paid for beforehand.
func stub_c20s_len(m *Memory) int { return int(c20sMemLen) }
func stub_c20s_resize(m *Memory, size uint64) {
	if c20sMemLen < size {
		// linear part of the memory fee: 3 gas per word - so the gas given bounds the allocation
		verifAssert(size/32*3 <= c20sGas0-c20sContract.Gas, "memory-is-paid-for-before-it-is-allocated")
		verifAssert(size%32 == 0, "memory-grows-in-words")
		c20sMemLen = size
	}
}
func c20sCovered(offset, size uint64) bool {
	return size == 0 || (offset <= c20sMemLen && size <= c20sMemLen-offset)
}
func stub_c20s_set(m *Memory, offset, size uint64, value []byte) {
	verifAssert(c20sCovered(offset, size), "memory-write-inside-the-resized-region")
}
func stub_c20s_set32(m *Memory, offset uint64, val *big.Int) {
	verifAssert(c20sCovered(offset, 32), "memory-word-write-inside-the-resized-region")
}
func c20sRead(offset, size int64) []byte {
	if size == 0 {
		return nil
	}
	verifAssert(offset >= 0 && size > 0 && c20sCovered(uint64(offset), uint64(size)), "memory-read-inside-the-resized-region")
	if size == 32 {
		return verifNondetBytes(32)
	}
	return verifNondetBytes(1) // contents and length of other reads are consumed by hashing / sub-frames / logs only
}
func stub_c20s_get(m *Memory, offset, size int64) []byte    { return c20sRead(offset, size) }
func stub_c20s_getptr(m *Memory, offset, size int64) []byte { return c20sRead(offset, size) }

// RightPadBytes(slice, l): the copy opcodes pad call data / code to a length bounded by the gas only;
// the padded bytes go straight into Memory.Set, so beyond the word-sized case only "not negative" matters
func stub_c20s_rightpad(slice []byte, l int) []byte {
	if l <= len(slice) {
		return slice
	}
	if l == 32 {
		padded := make([]byte, 32)
		copy(padded, slice)
		return padded
	}
	verifAssert(l >= 0, "padding-length-not-negative")
	return slice
}

// types.CalNewAmountGas (the value-transfer fee: 257-bit divisions by the coin unit, then a clamp): any
// fee inside the clamp - that the fee of a value transfer is at least MinGasLimit > 0 is what opCall's
// fee bookkeeping relies on
func stub_c20s_amountgas(value *big.Int, feeRule int64) uint64 {
	f := verifNondetUint64()
	verifAssume(f >= uint64(types.MinGasLimit) && (types.MaxGasLimit == 0 || f <= uint64(types.MaxGasLimit)))
	return f
}

// stack word -> address / storage key: the minimal big-endian bytes of the word, left-padded or cut
// (33 length cases per conversion); the world behind the StateDB interface answers arbitrarily for
// every account and slot, so which one is named does not matter here
func stub_c20s_bigtoaddress(b *big.Int) common.Address { return common.Address{verifNondetByte()} }
func stub_c20s_bigtohash(b *big.Int) common.Hash       { return common.Hash{verifNondetByte()} }

// Keccak-256 (SHA3 opcode, checksummed address strings in records): an uninterpreted function
func stub_c20s_keccak(data ...[]byte) []byte {
	var all []byte
	for _, d := range data {
		all = append(all, d...)
	}
	return verifHashBytes("keccak", 32, all)
}
func stub_c20s_hex(a common.Address) string { return "0xaddr" }

// libs/math.Exp loops over the machine words of the exponent; its value does not matter to metering
func stub_c20s_exp(base, exponent *big.Int) *big.Int {
	r := new(big.Int).SetBytes(verifNondetBytes(32))
	return r
}

// an operand: any 256-bit word
func c20sOperand(code []byte) []byte {
	code = append(code, byte(PUSH32))
	return append(code, verifNondetBytes(32)...)
}

// pure stack arithmetic: constant gas, no memory - operands from the boundary table
var c20sWords = [][]byte{
	{}, {1}, {31}, {32}, {255}, {1, 0},
	{0x80, 0, 0, 0, 0, 0, 0, 0, 0, 0, 0, 0, 0, 0, 0, 0, 0, 0, 0, 0, 0, 0, 0, 0, 0, 0, 0, 0, 0, 0, 0, 0},
	{0xFF, 0xFF, 0xFF, 0xFF, 0xFF, 0xFF, 0xFF, 0xFF, 0xFF, 0xFF, 0xFF, 0xFF, 0xFF, 0xFF, 0xFF, 0xFF, 0xFF, 0xFF, 0xFF, 0xFF, 0xFF, 0xFF, 0xFF, 0xFF, 0xFF, 0xFF, 0xFF, 0xFF, 0xFF, 0xFF, 0xFF, 0xFF},
}

func c20sBoundaryOperand(code []byte) []byte {
	w := c20sWords[verifCase(len(c20sWords))]
	if len(w) == 0 {
		return append(code, byte(PUSH1), 0)
	}
	code = append(code, byte(PUSH1)+byte(len(w)-1))
	return append(code, w...)
}

// boundary-table operands: pure stack arithmetic, and the two jumps (a symbolic destination indexes the
// code and its JUMPDEST bitmap at every position; destinations are decided by the JUMPDEST harness)
func c20sIsArithmetic(op OpCode) bool {
	return (op >= ADD && op <= SIGNEXTEND) || (op >= LT && op <= SAR) || op == JUMP || op == JUMPI
}
// the operand (counted from the top of the stack) that is the LENGTH of a memory region: lengths come
// from the boundary table (0, 1, 31, 32, 255, 256, 2^255, 2^256-1), offsets stay arbitrary words. A
// symbolic length goes through SafeMul's overflow test (a division by the symbolic operand) in the
// per-byte/per-word gas terms, which no back end decides; the offset is where the arithmetic can go
// wrong unnoticed (offset+length near 2^64)
func c20sIsSize(op OpCode, fromTop int) bool {
	switch op {
	case SHA3, RETURN, REVERT, LOG0, LOG1, LOG2, LOG3, LOG4:
		return fromTop == 1
	case CODECOPY:
		return fromTop == 2 || fromTop == 1 // and the offset into the code (it slices the frame's own code)
	case CALLDATACOPY, RETURNDATACOPY, CREATE, CREATE2:
		return fromTop == 2
	case EXTCODECOPY:
		return fromTop == 3
	case CALL, CALLCODE:
		return fromTop == 4 || fromTop == 6
	case DELEGATECALL, STATICCALL:
		return fromTop == 3 || fromTop == 5
	}
	return false
}

func c20sIsFrameOp(op OpCode) bool {
	switch op {
	case CALL, CALLCODE, DELEGATECALL, STATICCALL, CREATE, CREATE2:
		return true
	}
	return false
}
func c20sWritesState(op OpCode) bool {
	switch op {
	case SSTORE, LOG0, LOG1, LOG2, LOG3, LOG4, CREATE, CREATE2, SELFDESTRUCT, ISSUE, TRANSFERTOKEN:
		return true
	}
	return false
}

// > 0: the frame gets at most this much gas (the real-memory harness keeps the memory small with it)
var c20sGasBound uint64

// >= 0: only this operand (counted from the top of the stack) is symbolic, the others are zero
var c20sOnlySymbolic = -1
var c20sAlsoSymbolic = -1

func c20sRun(op OpCode, depth int, readOnly bool) {
	evm := &EVM{Issued: make(chan bool, 1), StateDB: &c20sWorld{}}
	evm.Context.BlockNumber = big.NewInt(100)
	evm.Context.Time = big.NewInt(1000)
	evm.Context.Difficulty = big.NewInt(1)
	evm.Context.GasLimit = 1 << 40
	evm.Context.Token = common.EmptyAddress
	evm.Context.GasPrice = big.NewInt(1)
	evm.Context.Origin = c20Caller
	evm.Context.Coinbase = c20Other
	evm.Context.GetHash = func(uint64) common.Hash { return common.Hash{0xB1} }
	in := NewInterpreter(evm, Config{JumpTable: newConstantinopleInstructionSet()})
	evm.interpreter = in
	var code []byte
	for i := 0; i < depth; i++ {
		if c20sOnlySymbolic >= 0 && depth-1-i != c20sOnlySymbolic && depth-1-i != c20sAlsoSymbolic {
			code = append(code, byte(PUSH1), 0)
			continue
		}
		if c20sIsArithmetic(op) || c20sIsSize(op, depth-1-i) {
			code = c20sBoundaryOperand(code)
		} else {
			code = c20sOperand(code)
		}
	}
	code = append(code, byte(op))
	gas := verifNondetUint64()
	if c20sGasBound > 0 {
		verifAssume(gas <= c20sGasBound)
	}
	contract := NewContract(AccountRef(c20Caller), AccountRef(c20Contract), new(big.Int), gas)
	a := c20Contract
	contract.SetCallCode(&a, common.Hash{0x01}, code)
	c20sForwarded, c20sReturned, c20sFrames, c20sWrites, c20sMemLen = 0, 0, 0, 0, 0
	c20sGas0, c20sContract = gas, contract
	input := verifNondetBytes(2)
	_, err := in.Run(contract, input, readOnly)
	verifReach("program-ran")
	verifAssert(contract.Gas <= gas, "frame-never-ends-with-more-gas-than-it-was-given")
	valid := in.cfg.JumpTable[op].valid
	if !valid {
		verifAssert(err != nil, "undefined-instruction-is-an-error")
	}
	if err == nil {
		verifReach("program-completed")
		if !in.cfg.JumpTable[op].halts && !in.cfg.JumpTable[op].reverts && !c20sIsFrameOp(op) {
			// termination: (gas left, stack height) decreases lexicographically at every step - a step
			// is paid for, or it shrinks the stack (the table's own pop/push counts)
			verifAssert(gas-contract.Gas >= uint64(3*depth)+1 || c20sNetStackEffect(op) < 0, "every-completed-step-costs-gas-or-shrinks-the-stack")
		}
	}
	if readOnly {
		verifAssert(c20sWrites == 0, "static-frame-writes-nothing")
		if c20sWritesState(op) {
			verifAssert(err != nil, "static-frame-refuses-state-writing-instructions")
		}
	}
}

// the fewest operands the table's stack validation admits the instruction with (0 for undefined ones)
func c20sNeed(op OpCode) int {
	table := newConstantinopleInstructionSet()
	if !table[op].valid {
		return 0
	}
	for d := 0; d <= 7; d++ {
		st := newstack()
		for i := 0; i < d; i++ {
			st.push(new(big.Int))
		}
		if table[op].validateStack(st) == nil {
			return d
		}
	}
	return 7
}

// pushes minus pops of an instruction, read off the table's stack validation: the highest stack the
// validation admits is StackLimit - push + pop
func c20sNetStackEffect(op OpCode) int {
	table := newConstantinopleInstructionSet()
	lo, hi := c20sNeed(op), int(cfg.StackLimit)+16
	for lo < hi { // largest admitted height in [need, limit+16]
		mid := (lo + hi + 1) / 2
		st := newstack()
		st.data = make([]*big.Int, mid)
		if table[op].validateStack(st) == nil {
			lo = mid
		} else {
			hi = mid - 1
		}
	}
	return int(cfg.StackLimit) - lo
}

// every opcode byte except the six frame-starting ones; stack depth: exactly what the table's stack
// validation asks for and one less (thorough: also one and two spare words below the operands) - the validation
// admits the instruction only with the operands its execute body pops
//verif:opt unwind=300 budget_s=1500 thorough.budget_s=6000 split=64 thorough.split=128 big_bv=1 name_terms=6 max_split=300
func H_C20_every_instruction_is_metered_and_total() {
	op := OpCode(verifCase(256))
	var depth int
	if op == MSTORE8 {
		return // writes memory.store directly instead of going through the accessors: outside the abstract memory
	}
	if c20sIsFrameOp(op) {
		// the six frame-starting instructions are NOT decided here: their gas arithmetic (all-but-one-64th
		// forwarding, stipend, create gas) ends in solver unknowns with symbolic operands; in a static frame
		// they are covered by H_C20_static_frames_write_nothing, their frames by the frame harnesses
		return
	}
	if verifThorough() {
		// one operand short, exact, and one and two spare words below the operands (capped at 7 pushes)
		depth = c20sNeed(op) - 1 + verifCase(4)
		if depth < 0 || depth > 7 {
			return
		}
	} else {
		depth = c20sNeed(op) - verifCase(2)
		if depth < 0 {
			return
		}
	}
	c20sRun(op, depth, false)
}

// a static (read-only) frame: no state write gets through - the state-writing instructions are refused
// before they cost or do anything, a CALL is refused exactly when it carries value (any value word,
// the other operands zero), SLOAD is allowed and writes nothing
//verif:opt unwind=300 budget_s=900 split=10 big_bv=1 name_terms=6 max_split=300
func H_C20_static_frames_write_nothing() {
	ops := []OpCode{SSTORE, LOG0, LOG2, CREATE, CREATE2, SELFDESTRUCT, ISSUE, TRANSFERTOKEN, SLOAD, CALL}
	op := ops[verifCase(len(ops))]
	c20sOnlySymbolic = -1
	if op == CALL {
		c20sOnlySymbolic = 2
	}
	c20sRun(op, c20sNeed(op), true)
	c20sOnlySymbolic = -1
}

// the gas handed to a sub-frame: the requested gas (any word) and, where there is one, the value (any
// word) are symbolic, the memory regions empty. The frame entry points are stubs that hand back at
// most what they were given; asserted inside them: what is forwarded is at most what the frame had
// (plus the stipend of a value transfer), and at the end the frame has at most the gas it was given.
//verif:opt unwind=300 budget_s=900 thorough.budget_s=3000 split=6 big_bv=1 name_terms=6 max_split=300
func H_C20_gas_forwarded_to_a_sub_frame_is_gas_the_frame_had() {
	if !verifThorough() {
		return // about five minutes on its own: thorough tier only
	}
	ops := []OpCode{CALL, CALLCODE, DELEGATECALL, STATICCALL, CREATE, CREATE2}
	op := ops[verifCase(len(ops))]
	c20sOnlySymbolic, c20sAlsoSymbolic = 0, -1
	if op == CALL || op == CALLCODE {
		c20sAlsoSymbolic = 2
	}
	c20sRun(op, c20sNeed(op), false)
	verifAssert(c20sFrames <= 1, "one-instruction-starts-at-most-one-frame")
	c20sOnlySymbolic, c20sAlsoSymbolic = -1, -1
}

func c20sIndex(ops []OpCode, op OpCode) int {
	for i, o := range ops {
		if o == op {
			return i
		}
	}
	return 0
}


