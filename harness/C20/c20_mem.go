//verif:pkg vm/evm
package evm

// C20 (the three instructions that address single memory cells, on the REAL memory) - MSTORE8 writes
// memory.store directly, so it is outside the abstract-memory step harness; here PUSH32 a; PUSH32 b;
// MSTORE8 / MSTORE / MLOAD run through the real interpreter loop, instruction table AND the real
// Memory (no stubs in this file), with both operands arbitrary 256-bit words and at most 14 gas, which
// keeps the memory at one word: no run-time failure for any operand (the resize covers the cell the
// instruction touches, or the step ends with an error first), never more gas left than given.
//verif:opt unwind=300 budget_s=600 big_bv=1 name_terms=6 max_split=300
func H_C20_single_cell_memory_instructions_on_the_real_memory() {
	ops := []OpCode{MSTORE8, MSTORE, MLOAD}
	op := ops[verifCase(len(ops))]
	c20sGasBound = 14
	c20sRun(op, c20sNeed(op), false)
	c20sGasBound = 0
}
