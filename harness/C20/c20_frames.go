//verif:pkg vm/evm
package evm

import (
	"errors"
	"math/big"

	cfg "github.com/lianxiangcloud/linkchain/config"
	"github.com/lianxiangcloud/linkchain/libs/common"
	"github.com/lianxiangcloud/linkchain/types"
)

// C20 (frame atomicity) — a contract-creation frame that fails leaves no state change behind except
// gas consumption (and the caller's nonce, which the protocol bumps before the frame starts), and
// value sent into a failed frame stays with the caller. The real EVM.create is executed; the code
// that runs inside the frame (run: interpreter / precompiles) is replaced by an arbitrary behaviour:
// it may burn any part of the gas, change balances, nonces and code of any account, and return any
// (return data, error) combination. The world state is a ledger model with real snapshot semantics.

//verif:filestub github.com/lianxiangcloud/linkchain/vm/evm.run => stub_c20_run
//verif:noop github.com/lianxiangcloud/linkchain/types.GenBalanceRecord

var c20ErrExec = errors.New("execution error inside the frame")

var (
	c20Caller   = common.Address{0xCA}
	c20Contract = common.Address{0xC0}
	c20Other    = common.Address{0x0E}
)

// balances are integers (SMT Int) end to end: converting between machine words and big.Int at every
// ledger access mixes bit-vector and integer reasoning, which no back end finishes
func c20Amount() *big.Int {
	x := verifNondetBig()
	verifAssume(x.Sign() >= 0 && x.Cmp(big.NewInt(255)) <= 0)
	return x
}

func c20Bal(a c20Acct) *big.Int {
	if a.balance == nil {
		return new(big.Int)
	}
	return a.balance
}

type c20Acct struct {
	exist   bool
	balance *big.Int
	nonce   uint64
	code    []byte
}

type c20Ledger struct {
	types.StateDB
	accts map[common.Address]c20Acct
	snaps []map[common.Address]c20Acct
}

func (l *c20Ledger) copyAccts() map[common.Address]c20Acct {
	m := map[common.Address]c20Acct{}
	for k, v := range l.accts {
		m[k] = v
	}
	return m
}
func (l *c20Ledger) Snapshot() int { l.snaps = append(l.snaps, l.copyAccts()); return len(l.snaps) - 1 }
func (l *c20Ledger) RevertToSnapshot(id int) {
	l.accts = l.snaps[id]
	l.snaps = l.snaps[:id]
}
func (l *c20Ledger) CreateAccount(a common.Address) {
	old := l.accts[a]
	l.accts[a] = c20Acct{exist: true, balance: old.balance}
}
func (l *c20Ledger) Exist(a common.Address) bool      { return l.accts[a].exist }
func (l *c20Ledger) GetCode(a common.Address) []byte  { return l.accts[a].code }
func (l *c20Ledger) GetNonce(a common.Address) uint64 { return l.accts[a].nonce }
func (l *c20Ledger) SetNonce(a common.Address, n uint64) {
	x := l.accts[a]
	x.nonce, x.exist = n, true
	l.accts[a] = x
}
func (l *c20Ledger) GetCodeHash(a common.Address) common.Hash {
	if len(l.accts[a].code) == 0 {
		return common.EmptyHash
	}
	return common.Hash{0xC1, l.accts[a].code[0]}
}
func (l *c20Ledger) SetCode(a common.Address, code []byte) {
	x := l.accts[a]
	x.code, x.exist = code, true
	l.accts[a] = x
}
func (l *c20Ledger) GetTokenBalance(a, token common.Address) *big.Int { return c20Bal(l.accts[a]) }
func (l *c20Ledger) AddTokenBalance(a, token common.Address, amount *big.Int) {
	x := l.accts[a]
	x.balance, x.exist = new(big.Int).Add(c20Bal(x), amount), true
	l.accts[a] = x
}
func (l *c20Ledger) SubTokenBalance(a, token common.Address, amount *big.Int) {
	x := l.accts[a]
	x.balance, x.exist = new(big.Int).Sub(c20Bal(x), amount), true
	l.accts[a] = x
}

func c20Same(a, b c20Acct) bool {
	return a.exist == b.exist && c20Bal(a).Cmp(c20Bal(b)) == 0 && a.nonce == b.nonce && string(a.code) == string(b.code)
}

// the frame body: anything
func stub_c20_run(evm *EVM, c types.Contract, input []byte, readOnly bool) ([]byte, error) {
	contract := c.(*Contract)
	burn := verifNondetUint64()
	verifAssume(burn <= contract.Gas)
	contract.Gas -= burn
	l := evm.StateDB.(*c20Ledger)
	switch verifCase(4) {
	case 1:
		l.AddTokenBalance(c20Other, common.EmptyAddress, c20Amount())
	case 2:
		l.SubTokenBalance(contract.Address(), common.EmptyAddress, big.NewInt(1))
		l.AddTokenBalance(c20Other, common.EmptyAddress, big.NewInt(1))
	case 3:
		l.SetNonce(c20Other, uint64(verifNondetUint8()))
		l.SetCode(c20Other, []byte{7})
	}
	ret := verifNondetBytes(verifCase(3))
	switch verifCase(3) {
	case 1:
		return ret, c20ErrExec
	case 2:
		return ret, types.ExecutionReverted
	}
	return ret, nil
}

//verif:opt unwind=12 budget_s=900 split=24
func H_C20_failed_create_leaves_no_trace() {
	depth := verifCase(2)
	emptyCodeHash = common.Hash{0xEE} // the package computes it with Keccak at init; only compared for equality
	l := &c20Ledger{accts: map[common.Address]c20Acct{}}
	l.accts[c20Caller] = c20Acct{exist: true, balance: c20Amount(), nonce: uint64(verifNondetUint8())}
	if verifNondetBool() {
		l.accts[c20Contract] = c20Acct{exist: true, balance: c20Amount()} // pre-funded address
	}
	if verifNondetBool() {
		l.accts[c20Other] = c20Acct{exist: true, balance: c20Amount()}
	}
	evm := &EVM{StateDB: l, Issued: make(chan bool, 1), depth: depth}
	evm.Context.CanTransfer = CanTransfer
	evm.Context.Transfer = Transfer
	evm.Context.UnsafeTransfer = UnsafeTransfer
	value := c20Amount()
	gas := verifNondetUint64()
	before := l.copyAccts()
	ret, _, left, err := evm.create(AccountRef(c20Caller), &codeAndHash{code: []byte{0}, hash: common.Hash{1}}, gas, value, c20Contract)
	verifReach("returned")
	verifAssert(left <= gas, "never-more-gas-than-given")
	_ = ret
	if err != nil {
		verifReach("failed")
		verifAssert(c20Same(l.accts[c20Contract], before[c20Contract]), "failed-create-leaves-the-new-account-untouched")
		verifAssert(c20Same(l.accts[c20Other], before[c20Other]), "failed-create-leaves-other-accounts-untouched")
		c := l.accts[c20Caller]
		verifAssert(c20Bal(c).Cmp(c20Bal(before[c20Caller])) == 0, "value-of-a-failed-create-stays-with-the-caller")
		verifAssert(c.nonce == before[c20Caller].nonce || (depth != 0 && c.nonce == before[c20Caller].nonce+1), "only-the-callers-nonce-may-advance")
		if err != types.ExecutionReverted && err != ErrDepth && err != ErrInsufficientBalance {
			verifAssert(left == 0, "failed-create-consumes-all-gas")
		}
	} else {
		verifReach("succeeded")
		if depth != 0 {
			verifAssert(c20Bal(before[c20Caller]).Cmp(value) >= 0, "create-only-with-sufficient-balance")
		}
		verifAssert(l.accts[c20Contract].nonce == 1 && l.accts[c20Contract].exist, "created-account-has-nonce-one")
	}
}

// Call / UTXOCall / CallCode / StaticCall frames with an arbitrary frame body (stub_c20_run: burns any
// part of the gas, may move funds, touch nonces and code, then succeeds, reverts or fails): never more
// gas left than given; a frame that fails leaves every account exactly as it was - the value sent
// along stays with the caller (for UTXOCall: the credit is taken back) -; a failure other than a
// revert consumes all the gas, except the two refusals that happen before the frame starts.
//verif:opt unwind=12 budget_s=900 split=24
func H_C20_failed_call_leaves_no_trace() {
	kind := verifCase(4)
	depth := verifCase(2)
	emptyCodeHash = common.Hash{0xEE}
	l := &c20Ledger{accts: map[common.Address]c20Acct{}}
	l.accts[c20Caller] = c20Acct{exist: true, balance: c20Amount(), nonce: uint64(verifNondetUint8())}
	if verifNondetBool() {
		l.accts[c20Contract] = c20Acct{exist: true, balance: c20Amount(), code: []byte{0x60}}
	}
	if verifNondetBool() {
		l.accts[c20Other] = c20Acct{exist: true, balance: c20Amount()}
	}
	evm := &EVM{StateDB: l, Issued: make(chan bool, 1), depth: depth}
	evm.Context.CanTransfer = CanTransfer
	evm.Context.Transfer = Transfer
	evm.Context.UnsafeTransfer = UnsafeTransfer
	evm.interpreter = &Interpreter{}
	value := c20Amount()
	gas := verifNondetUint64()
	before := l.copyAccts()
	var (
		left uint64
		err  error
	)
	switch kind {
	case 0:
		_, left, _, err = evm.Call(AccountRef(c20Caller), c20Contract, common.EmptyAddress, nil, gas, value)
	case 1:
		_, left, _, err = evm.UTXOCall(AccountRef(c20Caller), c20Contract, common.EmptyAddress, nil, gas, value)
	case 2:
		_, left, _, err = evm.CallCode(AccountRef(c20Caller), c20Contract, nil, gas, value)
	case 3:
		_, left, _, err = evm.StaticCall(AccountRef(c20Caller), c20Contract, nil, gas)
	}
	verifReach("call-returned")
	verifAssert(left <= gas, "call-never-more-gas-than-given")
	if err != nil {
		verifReach("call-failed")
		verifAssert(c20Same(l.accts[c20Caller], before[c20Caller]), "failed-call-leaves-the-caller-untouched")
		verifAssert(c20Same(l.accts[c20Contract], before[c20Contract]), "failed-call-leaves-the-callee-untouched")
		verifAssert(c20Same(l.accts[c20Other], before[c20Other]), "failed-call-leaves-other-accounts-untouched")
		if err != types.ExecutionReverted && err != ErrDepth && err != ErrInsufficientBalance {
			verifAssert(left == 0, "failed-call-consumes-all-gas")
		} else if err != types.ExecutionReverted {
			verifAssert(left == gas, "refused-call-costs-no-gas")
		}
	} else {
		verifReach("call-succeeded")
		if kind == 0 || kind == 2 {
			verifAssert(c20Bal(before[c20Caller]).Cmp(value) >= 0, "call-with-value-only-with-sufficient-balance")
		}
	}
}

// Memory, as the opcodes use it: the interpreter resizes memory to calcMemSize(offset, size) before
// an operation - which is 0 for a zero-length region whatever the offset (huge offsets included) - so
// every accessor must be total, and a no-op, for size 0 at ANY offset and with ANY value handed in
// (CALL-family opcodes pass the callee's whole return data with the caller-chosen return size), and
// must stay inside the store for regions the resize covered.
//verif:opt unwind=40 budget_s=600 split=6
func H_C20_memory_accessors_total_for_resized_regions() {
	m := NewMemory()
	have := uint64(verifCase(2) * 4) // current memory: empty or 4 bytes (the accessors do not care about word alignment;
	// regions inside the store are enumerated by the engine, so the store is kept small)
	m.Resize(have)
	for i := range m.store {
		m.store[i] = 0xEE
	}
	offset, size := verifNondetUint64(), verifNondetUint64()
	// what the interpreter guarantees: the region was covered by the resize, or is empty
	verifAssume(size == 0 || (offset <= have && size <= have-offset))
	value := verifNondetBytes(verifCase(4)) // whatever the callee returned: 0..3 bytes
	before := append([]byte{}, m.store...)
	switch verifCase(3) {
	case 0:
		m.Set(offset, size, value)
		if size == 0 {
			verifAssert(string(m.store) == string(before), "zero-size-set-is-a-no-op-at-any-offset")
		} else {
			verifAssert(len(m.store) == len(before), "set-does-not-grow-memory")
		}
	case 1:
		verifAssume(offset < 1<<62 && size < 1<<62)
		g := m.Get(int64(offset), int64(size))
		verifAssert(uint64(len(g)) == size || (size != 0 && g == nil), "get-returns-the-region")
	case 2:
		verifAssume(offset < 1<<62 && size < 1<<62)
		g := m.GetPtr(int64(offset), int64(size))
		verifAssert(uint64(len(g)) == size || (size != 0 && g == nil), "getptr-returns-the-region")
	}
	verifReach("memory-accessed")
}

// JUMPDEST validity in a frame depends on that frame's code only. The analysis of a code is cached
// per call tree under the code's hash - and the init code of a plain CREATE has no hash (create is
// handed codeAndHash{code: code}, hash zero, exactly as EVM.Create builds it). Two creations in one
// call tree: the first runs a short init code and takes one jump decision, the second runs another
// init code; for every position the second frame's decision must be the one a fresh analysis of ITS
// code gives - and must not fail at run time.
//verif:opt unwind=80 budget_s=600 split=4
func H_C20_jumpdest_validity_depends_on_the_frames_code_only() {
	parent := NewContract(AccountRef(c20Caller), AccountRef(c20Contract), new(big.Int), 1000)
	// first creation: a one- or two-byte init code (any bytes), one JUMP evaluated in it
	first := NewContract(parent, AccountRef(c20Other), new(big.Int), 100)
	a1 := c20Other
	first.SetCodeOptionalHash(&a1, &codeAndHash{code: verifNondetBytes(1 + verifCase(2))})
	first.validJumpdest(big.NewInt(0)) // what opJump / opJumpi ask
	// second creation in the same call tree: 48 JUMPDESTs (quick) or JUMPDESTs around a PUSH2 (thorough)
	code2 := make([]byte, 48)
	for i := range code2 {
		code2[i] = byte(JUMPDEST)
	}
	if verifThorough() {
		code2[8], code2[9], code2[10] = byte(PUSH2), byte(JUMPDEST), byte(JUMPDEST)
	}
	second := NewContract(parent, AccountRef(c20Contract), new(big.Int), 100)
	a2 := c20Contract
	second.SetCodeOptionalHash(&a2, &codeAndHash{code: code2})
	pos := verifNondetUint64()
	verifAssume(pos < 64)
	got := second.validJumpdest(new(big.Int).SetUint64(pos))
	want := make(destinations).has(common.Hash{0x01}, code2, new(big.Int).SetUint64(pos))
	verifReach("jump-decided")
	verifAssert(got == want, "jump-validity-is-that-of-a-fresh-analysis-of-the-frames-own-code")
}

// ---- the interpreter loop itself, over an abstract instruction set ----
//
// The real Interpreter.Run (fetch, validity, stack validation, memory size, gas function, UseGas,
// resize, execute, pc/halting, and the transfer-fee bookkeeping around a gas function that reserved a
// fee) runs a three-instruction program over a jump table of four abstract operations that follow the
// protocol the real gas and execution functions follow:
//   00 halt; 01 an ordinary operation with an arbitrary cost (or a gas-function error);
//   02 a value-transferring call: its gas function reserves a fee (appends to evm.fees, sets
//      evm.feeSaved) and may still fail; its execution keeps the fee or, when the call fails, moves
//      everything from its fee on to the refunds (as opCall does);
//   03 a call without value whose callee frames - the same interpreter, recursively - leave
//      evm.feeSaved in an arbitrary state and all their fees cleaned up.
// For every program, gas amount and outcome: the loop does not fail at run time, never leaves more
// gas than it was given, and the fee stack never holds more entries than fee-reserving operations
// were paid for.
var (
	c20iPaidFeeOps int
)

func c20iStackOK(stack *Stack) error { return nil }

func c20iTable() [256]operation {
	var t [256]operation
	t[0] = operation{valid: true, halts: true, validateStack: c20iStackOK,
		gasCost: func(gt cfg.GasTable, evm *EVM, c *Contract, s *Stack, m *Memory, ms uint64) (uint64, error) { return 0, nil },
		execute: func(pc *uint64, evm *EVM, c *Contract, m *Memory, s *Stack) ([]byte, error) { return nil, nil }}
	t[1] = operation{valid: true, validateStack: c20iStackOK,
		gasCost: func(gt cfg.GasTable, evm *EVM, c *Contract, s *Stack, m *Memory, ms uint64) (uint64, error) {
			if verifNondetBool() {
				return 0, errGasUintOverflow
			}
			return uint64(verifNondetUint8()), nil
		},
		execute: func(pc *uint64, evm *EVM, c *Contract, m *Memory, s *Stack) ([]byte, error) { return nil, nil }}
	t[2] = operation{valid: true, validateStack: c20iStackOK,
		gasCost: func(gt cfg.GasTable, evm *EVM, c *Contract, s *Stack, m *Memory, ms uint64) (uint64, error) {
			fee := 1 + uint64(verifNondetUint8()%4)
			evm.fees = append(evm.fees, fee)
			evm.feeSaved = true
			if verifNondetBool() {
				return 0, errGasUintOverflow // e.g. callGas overflow after the fee was reserved
			}
			return 2 + fee, nil
		},
		execute: func(pc *uint64, evm *EVM, c *Contract, m *Memory, s *Stack) ([]byte, error) {
			c20iPaidFeeOps++
			start := len(evm.fees) - 1
			if verifNondetBool() { // the call failed: its fee and its callees' fees become refunds
				evm.refundFees = append(evm.refundFees, evm.fees[start:]...)
				evm.fees = evm.fees[:start]
			}
			return nil, nil
		}}
	t[3] = operation{valid: true, validateStack: c20iStackOK,
		gasCost: func(gt cfg.GasTable, evm *EVM, c *Contract, s *Stack, m *Memory, ms uint64) (uint64, error) { return 1, nil },
		execute: func(pc *uint64, evm *EVM, c *Contract, m *Memory, s *Stack) ([]byte, error) {
			evm.feeSaved = verifNondetBool() // whatever the callee frames' last gas function left
			return nil, nil
		}}
	return t
}

//verif:opt unwind=16 budget_s=900 thorough.budget_s=3000 split=16 thorough.split=64
func H_C20_interpreter_loop_survives_any_fee_protocol_run() {
	evm := &EVM{Issued: make(chan bool, 1)}
	in := &Interpreter{evm: evm, cfg: Config{JumpTable: c20iTable()}}
	evm.interpreter = in
	code := []byte{byte(verifCase(4)), byte(verifCase(4)), byte(verifCase(4)), 0}
	gas := uint64(verifNondetUint8())
	if verifThorough() {
		code = []byte{byte(verifCase(4)), byte(verifCase(4)), byte(verifCase(4)), byte(verifCase(4)), 0}
		gas = uint64(verifNondetUint16())
	}
	contract := NewContract(AccountRef(c20Caller), AccountRef(c20Contract), new(big.Int), gas)
	a := c20Contract
	contract.SetCallCode(&a, common.Hash{0x01}, code)
	c20iPaidFeeOps = 0
	_, err := in.Run(contract, nil, false)
	verifReach("frame-ran")
	verifAssert(contract.Gas <= gas, "loop-never-leaves-more-gas-than-given")
	verifAssert(len(evm.fees) <= c20iPaidFeeOps+1, "fee-stack-holds-only-fees-of-operations-that-reserved-them")
	if err == nil {
		verifAssert(len(evm.fees) <= c20iPaidFeeOps, "completed-frame-keeps-only-paid-fees")
	}
}
