//verif:pkg blockchain
package blockchain

import (
	dbm "github.com/lianxiangcloud/linkchain/libs/db"
)

// C13 (block store side) — pruning with a retention window of K blocks never deletes a block of
// the last K heights, for every chain height, start height and window (64-bit, symbolic).
// deleteBlock and the persisted start height are recording stubs; the arithmetic and the loop of
// the real BlockStore.DeleteHistoricalData are executed.

//verif:filestub (*github.com/lianxiangcloud/linkchain/blockchain.BlockStore).deleteBlock => stub_c13_deleteblock
//verif:filestub github.com/lianxiangcloud/linkchain/blockchain.loadStartDeleteHeight => stub_c13_loadstart
//verif:filestub github.com/lianxiangcloud/linkchain/blockchain.saveStartDeleteHeight => stub_c13_savestart

var (
	c13Height, c13Keep uint64
	c13Deleted         int
	c13Persisted       uint64
	c13Saved           bool
	c13LowestDeleted   uint64
)

func stub_c13_deleteblock(bs *BlockStore, height uint64) (int, error) {
	// a block of the last K heights (height > H-K) must never be deleted
	verifAssert(c13Keep <= c13Height && height <= c13Height-c13Keep, "never-deletes-inside-retention-window")
	if c13Deleted == 0 {
		c13LowestDeleted = height
	}
	c13Deleted++
	return 1, nil
}
func stub_c13_loadstart(db dbm.DB) uint64 { return c13Persisted }
func stub_c13_savestart(db dbm.DB, h uint64) {
	c13Persisted = h
	c13Saved = true
}

//verif:opt unwind=8 budget_s=600
func H_C13_blockstore_prune_window() {
	H := verifNondetUint64()
	K := verifNondetUint64()
	start := verifNondetUint64()
	verifAssume(start >= 1 && H >= 1 && H < 1<<63) // a height of 2^64-1 would make minHeight++ wrap: outside the claim
	// the loop runs once per pruned height: keep the number of prunable heights small (any absolute values)
	verifAssume(K > H || H-K < start || H-K-start <= 4)
	c13Height, c13Keep, c13Deleted, c13Saved = H, K, 0, false
	bs := &BlockStore{height: H}
	if verifNondetBool() {
		bs.startDeleteHeight = start // cached from an earlier run
	} else {
		c13Persisted = start // first run after a restart: read from the database
	}
	bs.DeleteHistoricalData(K)
	verifReach("pruned")
	if K <= H && start <= H-K {
		verifReach("something-prunable")
		verifAssert(uint64(c13Deleted) == H-K-start+1 && c13LowestDeleted == start, "prunes-every-height-outside-the-window")
		verifAssert(bs.startDeleteHeight == H-K+1 && c13Saved && c13Persisted == H-K+1, "next-start-is-first-retained-height")
	} else {
		verifAssert(c13Deleted == 0, "nothing-prunable-nothing-deleted")
	}
}
