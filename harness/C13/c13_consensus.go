//verif:pkg consensus
package consensus

import (
	"encoding/binary"

	dbm "github.com/lianxiangcloud/linkchain/libs/db"
	"github.com/lianxiangcloud/linkchain/types"
)

// C13 (consensus side) — pruning the per-height validator/parameter records with a retention window
// of K blocks leaves the records of the last K heights present and LoadValidators working for them.
// The database is a harness model keyed by height; record keys are an explicit injective encoding;
// the (reflective) record codec is bypassed. The real ConsensusState.DeleteHistoricalData and
// LoadValidators are executed.

//verif:filestub github.com/lianxiangcloud/linkchain/consensus.calcValidatorsKey => stub_c13_valkey
//verif:filestub github.com/lianxiangcloud/linkchain/consensus.calcConsensusParamsKey => stub_c13_paramkey
//verif:filestub github.com/lianxiangcloud/linkchain/consensus.loadValidatorsInfo => stub_c13_loadvalinfo
//verif:filestub github.com/lianxiangcloud/linkchain/consensus.loadConsensusParamsInfo => stub_c13_loadparaminfo
//verif:filestub github.com/lianxiangcloud/linkchain/consensus.loadStartDeleteHeight => stub_c13_loadstart
//verif:filestub github.com/lianxiangcloud/linkchain/consensus.saveStartDeleteHeight => stub_c13_savestart

func c13Key(tag byte, h uint64) []byte {
	b := make([]byte, 9)
	b[0] = tag
	binary.BigEndian.PutUint64(b[1:], h)
	return b
}
func stub_c13_valkey(h uint64) []byte   { return c13Key('V', h) }
func stub_c13_paramkey(h uint64) []byte { return c13Key('P', h) }

type c13DB struct {
	dbm.DB
	vals     map[uint64]*ValidatorsInfo
	params   map[uint64]*ConsensusParamsInfo
	height   uint64
	keep     uint64
	deleted  int
	startKey uint64
	first    uint64
	lowest   uint64
}

func (d *c13DB) Delete(key []byte) {
	h := binary.BigEndian.Uint64(key[1:])
	// a record of the last K heights (h > H-K) must never be deleted
	verifAssert(d.keep <= d.height && h <= d.height-d.keep, "never-deletes-a-record-inside-the-retention-window")
	d.lowest = h
	if d.deleted == 0 {
		d.first = h
	}
	if key[0] == 'V' {
		delete(d.vals, h)
	} else {
		delete(d.params, h)
	}
	d.deleted++
}

func stub_c13_loadvalinfo(db dbm.DB, h uint64) *ValidatorsInfo { return db.(*c13DB).vals[h] }
func stub_c13_loadparaminfo(db dbm.DB, h uint64) *ConsensusParamsInfo { return db.(*c13DB).params[h] }
func stub_c13_loadstart(db dbm.DB) uint64                    { return db.(*c13DB).startKey }
func stub_c13_savestart(db dbm.DB, h uint64)                 { db.(*c13DB).startKey = h }

// arithmetic of the pruning loop for every chain height, start height and window
//verif:opt unwind=10 budget_s=600
func H_C13_validator_records_prune_window() {
	H := verifNondetUint64()
	K := verifNondetUint64()
	start := verifNondetUint64()
	verifAssume(start >= 1 && H >= 1 && H < 1<<62 && K < 1<<62 && start < 1<<62)
	verifAssume(H < start || H-start <= 5) // the loop runs once per height between start and H
	db := &c13DB{vals: map[uint64]*ValidatorsInfo{}, params: map[uint64]*ConsensusParamsInfo{}, height: H, keep: K, startKey: start}
	cs := &ConsensusState{blockExec: &BlockExecutor{db: db}}
	cs.Height = H
	cs.startDeleteHeight = start
	cs.DeleteHistoricalData(K)
	verifReach("pruned")
	if K > H || start > H-K {
		verifAssert(db.deleted == 0, "nothing-prunable-nothing-deleted")
	}
}

// after pruning, every retained height still resolves to its validator set
//verif:opt unwind=12 budget_s=900 split=12
func H_C13_validators_readable_after_pruning() {
	H := uint64(3 + verifCase(2))
	K := uint64(1 + verifCase(int(H)))
	db := &c13DB{vals: map[uint64]*ValidatorsInfo{}, params: map[uint64]*ConsensusParamsInfo{}, height: H, keep: K, startKey: 1}
	// records as saveValidatorsInfo writes them: a full set at each change height, a pointer elsewhere
	change := uint64(1)
	sets := map[uint64]*types.ValidatorSet{}
	for h := uint64(1); h <= H; h++ {
		if h == 1 || verifNondetBool() {
			change = h
			vs := &types.ValidatorSet{Validators: []*types.Validator{{Address: []byte{byte(h)}, VotingPower: 1}}}
			sets[h] = vs
			db.vals[h] = &ValidatorsInfo{ValidatorSet: vs, LastHeightChanged: h}
		} else {
			db.vals[h] = &ValidatorsInfo{LastHeightChanged: change}
		}
	}
	// parameter records follow the same scheme: full parameters at a change height, a pointer elsewhere
	pchange := uint64(1)
	for h := uint64(1); h <= H; h++ {
		if h == 1 || verifNondetBool() {
			pchange = h
			pi := &ConsensusParamsInfo{LastHeightChanged: h}
			pi.ConsensusParams.BlockSize.MaxTxs = int(h)
			db.params[h] = pi
		} else {
			db.params[h] = &ConsensusParamsInfo{LastHeightChanged: pchange}
		}
	}
	cs := &ConsensusState{blockExec: &BlockExecutor{db: db}}
	cs.Height = H
	cs.startDeleteHeight = 1
	cs.DeleteHistoricalData(K)
	verifReach("pruned")
	for h := H - K + 1; h <= H; h++ {
		vs, changed, err := LoadValidators(db, h)
		verifAssert(err == nil && vs != nil, "retained-height-has-its-validator-set")
		if err == nil && vs != nil {
			verifAssert(vs == sets[changed], "loaded-set-is-the-one-in-force")
		}
		cp, perr := LoadConsensusParams(db, h)
		verifAssert(perr == nil && cp.BlockSize.MaxTxs >= 1 && uint64(cp.BlockSize.MaxTxs) <= h, "retained-height-has-its-parameters")
	}
	// everything older than the window that is no longer referenced is gone
	if K < H {
		for h := uint64(1); h+K <= H; h++ {
			ref := db.vals[H-K+1] != nil && db.vals[H-K+1].LastHeightChanged == h
			if !ref {
				verifAssert(db.vals[h] == nil, "unreferenced-old-record-is-pruned")
			}
		}
	}
}
