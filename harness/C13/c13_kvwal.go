//verif:pkg state
package state

import (
	"bytes"
	"os"

	dbm "github.com/lianxiangcloud/linkchain/libs/db"
)

// C13 (flat-state undo log) — a crash at any database write boundary of a state commit in key/value
// mode, or in the middle of the undo-log append, is repaired at start-up: restarting with the block
// store still at height H gives exactly the state of height H; restarting after the whole commit
// gives the new state. Real code: wrappedDB.SaveWAL/saveWAL, wrappedTrie.TryUpdate/Commit,
// saveHeight/loadHeight, rebuildLastState, the height switch of NewKeyValueDBWithCache (re-stated in
// the harness because it opens the log file by path). The database is the real MemDB behind a
// wrapper that can stop the run before or after a durable write; the log file is a byte buffer.

//verif:filestub github.com/lianxiangcloud/linkchain/state.keyHash => stub_c13_keyhash

func stub_c13_keyhash(key []byte) []byte { return verifHashBytes("keccak", 32, key) }

type c13Crash struct{}

type c13CrashDB struct {
	dbm.DB
	effects int
	crashAt int // stop before (2k) or after (2k+1) the k-th durable database write; -1 = never
}

func (d *c13CrashDB) effect(do func()) {
	k := d.effects
	d.effects++
	if d.crashAt == 2*k {
		panic(c13Crash{})
	}
	do()
	if d.crashAt == 2*k+1 {
		panic(c13Crash{})
	}
}
func (d *c13CrashDB) SetSync(k, v []byte) { d.effect(func() { d.DB.SetSync(k, v) }) }
func (d *c13CrashDB) NewBatch() dbm.Batch { return &c13CrashBatch{d.DB.NewBatch(), d} }

type c13CrashBatch struct {
	dbm.Batch
	d *c13CrashDB
}

func (b *c13CrashBatch) Commit() error {
	var err error
	b.d.effect(func() { err = b.Batch.Commit() })
	return err
}
func (b *c13CrashBatch) Write() { b.d.effect(func() { b.Batch.Write() }) }

func c13Restart(db dbm.DB, wal *os.File, storeHeight uint64) {
	// the switch of NewKeyValueDBWithCache
	kvh := loadHeight(db)
	switch kvh {
	case storeHeight:
	case storeHeight + 1:
		if err := rebuildLastState(db, wal); err != nil {
			panic(err)
		}
	case 0:
	default:
		panic("kv state height and block store height cannot be reconciled")
	}
}

func c13Get(db dbm.DB, k []byte) []byte { v, _ := db.Load(k); return v }

//verif:opt unwind=40 budget_s=900 split=14 max_split=160
func H_C13_kv_state_crash_recovery() {
	crashAt := verifCase(7) - 1 // -1: no crash; 0..5: before/after the 1st, 2nd, 3rd durable database write
	mem := dbm.NewMemDB()
	wal, err := os.CreateTemp("", "kvState.wal")
	if err != nil {
		panic(err)
	}
	defer os.Remove(wal.Name())
	const H = 7
	// state of height H: key A present or not, key B present; the log still holds block H's undo records
	kA, kB := []byte{'A'}, []byte{'B'}
	hA, hB := keyHash(kA), keyHash(kB) // the flat state stores values under the key hash
	hadA := verifNondetBool()
	a0, b0 := verifNondetBytes(1), verifNondetBytes(1)
	if hadA {
		mem.Set(hA, a0)
	}
	mem.Set(hB, b0)
	saveHeight(mem, H)
	// the log still holds block H's own undo record: H had changed B from another value
	bPrev := verifNondetBytes(1)
	verifAssume(bPrev[0] != b0[0])
	rec := append([]byte{0, 0, 0, byte(len(hB))}, hB...)
	rec = append(rec, 0, 0, 0, 1, bPrev[0])
	wal.Write(rec)
	wal.Sync()

	cdb := &c13CrashDB{DB: mem, crashAt: crashAt}
	kv := &wrappedDB{db: cdb, wal: wal}
	// block H+1: writes A, deletes or rewrites B
	a1 := verifNondetBytes(1)
	delB := verifNondetBool()
	b1 := verifNondetBytes(1)
	crashed := false
	func() {
		defer func() {
			if r := recover(); r != nil {
				if _, ok := r.(c13Crash); !ok {
					panic(r)
				}
				crashed = true
			}
		}()
		kv.SaveWAL(H + 1)
		tr := &wrappedTrie{db: kv, serial: &kvHeap{}, updates: map[string][]byte{}}
		tr.TryUpdate(kA, a1)
		if delB {
			tr.TryDelete(kB)
		} else {
			tr.TryUpdate(kB, b1)
		}
		tr.Commit(nil, H+1)
	}()
	verifReach("ran")
	if crashed {
		verifReach("crashed")
		// a crash while the undo log was being appended leaves an arbitrary prefix of it
		// (only while the batch it precedes has not been written: crash point 'before the 2nd database write')
		if crashAt == 2 {
			fi, _ := wal.Stat()
			cut := verifNondetInt()
			verifAssume(cut >= 0 && int64(cut) <= fi.Size())
			wal.Truncate(int64(cut))
		}
		c13Restart(mem, wal, H) // the block store is still at H
		verifReach("restarted-after-crash")
		if hadA {
			verifAssert(bytes.Equal(c13Get(mem, hA), a0), "crash-recovery-restores-previous-value")
		} else {
			verifAssert(c13Get(mem, hA) == nil, "crash-recovery-removes-new-key")
		}
		verifAssert(bytes.Equal(c13Get(mem, hB), b0), "crash-recovery-restores-changed-or-deleted-key")
	} else {
		c13Restart(mem, wal, H+1) // the whole commit including the block store went through
		verifReach("restarted-after-commit")
		verifAssert(bytes.Equal(c13Get(mem, hA), a1), "committed-block-stays-applied")
		if delB {
			verifAssert(c13Get(mem, hB) == nil, "committed-delete-stays-applied")
		} else {
			verifAssert(bytes.Equal(c13Get(mem, hB), b1), "committed-update-stays-applied")
		}
	}
}
