//verif:pkg blockchain
package blockchain

import (
	"strings"
	"sync"
	"time"

	"github.com/lianxiangcloud/linkchain/libs/common"
	dbm "github.com/lianxiangcloud/linkchain/libs/db"
	"github.com/lianxiangcloud/linkchain/types"
)

// C13 (what the durable height marker promises) — SaveBlock writes the parts, the commits and the
// meta in one batch, and receipts, transactions result and the transaction index from three
// goroutines. After a crash the node trusts the persisted height marker: LoadTxsResult(H),
// LoadBlockMeta(H) and the receipts of H must be there whenever the marker says H. So at the moment
// the marker is written, everything else of height H must already have been written - under every
// interleaving of the three writers the code allows.
//
// The store is a recording wrapper around MemDB. Schedules: the engine runs the goroutines either
// where they are spawned or, after verifLazyGoroutines(true), at the spawner's next WaitGroup.Wait -
// the two extremes of what a join permits; in the native replay the wrapper stalls the side writers
// for a moment (or until the marker is written) to produce the same late schedule.
// Cuts: the byte encoders return a constant; hashing of the block and the parts is a constant.

//verif:filestub github.com/lianxiangcloud/linkchain/libs/ser.MustEncodeToBytes => stub_c13s_encode
//verif:filestub github.com/lianxiangcloud/linkchain/libs/ser.EncodeToBytes => stub_c13s_encode2
//verif:filestub github.com/lianxiangcloud/linkchain/libs/ser.MarshalJSON => stub_c13s_encode2
//verif:filestub (*github.com/lianxiangcloud/linkchain/types.Block).Hash => stub_c13s_blockhash
//verif:filestub github.com/lianxiangcloud/linkchain/types.NewBlockMeta => stub_c13s_meta
//verif:filestub github.com/lianxiangcloud/linkchain/libs/crypto.Keccak256 => stub_c13s_keccak
//verif:filestub github.com/lianxiangcloud/linkchain/libs/crypto/merkle.SimpleHashFromTwoHashes => stub_c13s_h2

//verif:filestub github.com/lianxiangcloud/linkchain/blockchain.calcBlockMetaKey => stub_c13s_kmeta
//verif:filestub github.com/lianxiangcloud/linkchain/blockchain.calcBlockHashKey => stub_c13s_khash
//verif:filestub github.com/lianxiangcloud/linkchain/blockchain.calcBlockPartKey => stub_c13s_kpart
//verif:filestub github.com/lianxiangcloud/linkchain/blockchain.calcBlockCommitKey => stub_c13s_kcommit
//verif:filestub github.com/lianxiangcloud/linkchain/blockchain.calcSeenCommitKey => stub_c13s_kseen
//verif:filestub github.com/lianxiangcloud/linkchain/blockchain.calcBlockReceiptsKey => stub_c13s_kreceipts
//verif:filestub github.com/lianxiangcloud/linkchain/blockchain.calcTxsResultKey => stub_c13s_ktxsresult

// the key builders format with fmt (not encoded): same prefixes, the height as one byte
func stub_c13s_kmeta(height uint64) []byte              { return []byte{'B', 'M', ':', byte(height)} }
func stub_c13s_khash(hash common.Hash) []byte           { return []byte{'B', 'H', ':', hash[0]} }
func stub_c13s_kpart(height uint64, index int) []byte   { return []byte{'B', 'P', ':', byte(height), ':', byte(index)} }
func stub_c13s_kcommit(height uint64) []byte            { return []byte{'B', 'C', ':', byte(height)} }
func stub_c13s_kseen(height uint64) []byte              { return []byte{'B', 'S', 'C', ':', byte(height)} }
func stub_c13s_kreceipts(height uint64) []byte          { return []byte{'B', 'R', ':', byte(height)} }
func stub_c13s_ktxsresult(height uint64) []byte         { return []byte{'B', 'T', 'R', ':', byte(height)} }

func stub_c13s_encode(o interface{}) []byte           { return []byte{0xE1} }
func stub_c13s_encode2(o interface{}) ([]byte, error) { return []byte{0xE2}, nil }
func stub_c13s_blockhash(b *types.Block) common.Hash  { return common.Hash{0xBB} }
func stub_c13s_keccak(data ...[]byte) []byte          { return make([]byte, 32) }
func stub_c13s_h2(left, right []byte) []byte          { return make([]byte, 32) }
func stub_c13s_meta(block *types.Block, blockParts *types.PartSet) *types.BlockMeta {
	return &types.BlockMeta{}
}

type c13sDB struct {
	dbm.DB
	mtx          sync.Mutex
	late         bool          // native: stall the side writers
	markerDone   chan struct{} // native: closed when the marker is written
	atMarker     []string      // keys present when the marker was written
	markerWrites int
}

func (d *c13sDB) snapshotKeys() []string {
	var ks []string
	it := d.DB.Iterator(nil, nil)
	for ; it.Valid(); it.Next() {
		ks = append(ks, string(it.Key()))
	}
	return ks
}

func (d *c13sDB) Set(key, value []byte) {
	k := string(key)
	side := strings.HasPrefix(k, "BR:") || strings.HasPrefix(k, "BTR:")
	if side && d.late && !verifSymbolic() {
		select {
		case <-d.markerDone:
		case <-time.After(300 * time.Millisecond):
		}
	}
	d.mtx.Lock()
	defer d.mtx.Unlock()
	if k == string(blockStoreKey) {
		d.atMarker = d.snapshotKeys()
		d.markerWrites++
		if d.markerWrites == 1 && !verifSymbolic() {
			close(d.markerDone)
		}
	}
	d.DB.Set(key, value)
}

func c13sHas(ks []string, prefix string) bool {
	for _, k := range ks {
		if strings.HasPrefix(k, prefix) {
			return true
		}
	}
	return false
}

//verif:opt unwind=24 budget_s=600
func H_C13_height_marker_written_after_everything_of_that_height() {
	late := verifNondetBool()
	db := &c13sDB{DB: dbm.NewMemDB(), late: late, markerDone: make(chan struct{})}
	bs := &BlockStore{db: db}
	height := uint64(1)
	block := &types.Block{Header: &types.Header{Height: height}, Data: &types.Data{}, LastCommit: &types.Commit{}}
	parts := types.NewPartSetFromData([]byte{1, 2, 3}, 2)
	receipts := &types.Receipts{}
	txsResult := &types.TxsResult{}
	if late {
		verifLazyGoroutines(true)
	}
	bs.SaveBlock(block, parts, &types.Commit{}, receipts, txsResult)
	verifLazyGoroutines(false)
	verifReach("saved")
	verifAssert(db.markerWrites == 1, "the-height-marker-is-written-once")
	ks := db.atMarker
	verifAssert(c13sHas(ks, "BM:") && c13sHas(ks, "BP:") && c13sHas(ks, "BSC:"), "marker-after-the-block-meta-parts-and-commit")
	verifAssert(c13sHas(ks, "BTR:"), "marker-after-the-transactions-result")
	verifAssert(c13sHas(ks, "BR:"), "marker-after-the-receipts")
	if late {
		verifReach("late-side-writers")
	}
}
