//verif:pkg libs/db
package db

import "bytes"

// C19 — MemDB / memBatch / prefixDB against a reference ordered map.
// Keys are byte strings of length 0..2 with fully symbolic bytes; values are
// one symbolic byte (non-empty, as the property requires).

type c19Ref struct {
	keys [][]byte
	vals [][]byte
}

func (r *c19Ref) find(k []byte) int {
	for i := range r.keys {
		if bytes.Equal(r.keys[i], k) {
			return i
		}
	}
	return -1
}
func (r *c19Ref) set(k, v []byte) {
	if i := r.find(k); i >= 0 {
		r.vals[i] = v
		return
	}
	r.keys = append(r.keys, k)
	r.vals = append(r.vals, v)
}
func (r *c19Ref) del(k []byte) {
	if i := r.find(k); i >= 0 {
		r.keys = append(r.keys[:i:i], r.keys[i+1:]...)
		r.vals = append(r.vals[:i:i], r.vals[i+1:]...)
	}
}

// ordered returns the reference answer for an iteration: keys in [start,end)
// ascending, or for reverse the keys in (end,start] descending; nil bounds are open.
func (r *c19Ref) ordered(start, end []byte, reverse bool) (ks, vs [][]byte) {
	for i, k := range r.keys {
		in := true
		if !reverse {
			if start != nil && bytes.Compare(k, start) < 0 {
				in = false
			}
			if end != nil && bytes.Compare(k, end) >= 0 {
				in = false
			}
		} else {
			if start != nil && bytes.Compare(k, start) > 0 {
				in = false
			}
			if end != nil && bytes.Compare(k, end) <= 0 {
				in = false
			}
		}
		if in {
			ks = append(ks, k)
			vs = append(vs, r.vals[i])
		}
	}
	// insertion sort
	for i := 1; i < len(ks); i++ {
		for j := i; j > 0; j-- {
			c := bytes.Compare(ks[j-1], ks[j])
			if (!reverse && c > 0) || (reverse && c < 0) {
				ks[j-1], ks[j] = ks[j], ks[j-1]
				vs[j-1], vs[j] = vs[j], vs[j-1]
			} else {
				break
			}
		}
	}
	return
}

// c19KeyTable, when set, replaces the fully symbolic keys by a choice from a fixed table (used where
// the code under test hashes the key: sharding)
var c19KeyTable [][]byte

func c19Key(maxLen int) []byte {
	if c19KeyTable != nil {
		return append([]byte{}, c19KeyTable[verifCase(len(c19KeyTable))]...)
	}
	n := verifCase(maxLen + 1)
	return verifNondetBytes(n)
}

func c19Val() []byte { return verifNondetBytes(1) }

func c19Bound(maxLen int) []byte {
	if verifNondetBool() {
		return nil
	}
	return c19Key(maxLen)
}

// c19Pre puts n arbitrary entries into db and the reference (every map content
// is reachable by Sets, so an arbitrary pre-state plus one operation covers
// operation sequences of any length: one inductive step).
func c19Pre(d DB, ref *c19Ref, n int, maxLen int) {
	for i := 0; i < n; i++ {
		k, v := c19Key(maxLen), c19Val()
		d.Set(k, v)
		ref.set(k, v)
	}
}

// c19Op performs one arbitrary operation of the given kind on db and the reference.
func c19Op(d DB, ref *c19Ref, kind int, maxLen int) {
	switch kind {
	case 0:
		k, v := c19Key(maxLen), c19Val()
		d.Set(k, v)
		ref.set(k, v)
	case 1:
		k := c19Key(maxLen)
		d.Delete(k)
		ref.del(k)
	case 2: // batch of two operations, written: visible entirely and in order
		b := d.NewBatch()
		k1, v1 := c19Key(maxLen), c19Val()
		k2 := c19Key(maxLen)
		b.Set(k1, v1)
		if verifNondetBool() {
			b.Delete(k2)
			b.Write()
			ref.set(k1, v1)
			ref.del(k2)
		} else {
			v2 := c19Val()
			b.Set(k2, v2)
			b.Write()
			ref.set(k1, v1)
			ref.set(k2, v2)
		}
	case 3: // abandoned batch: nothing visible
		b := d.NewBatch()
		b.Set(c19Key(maxLen), c19Val())
		b.Delete(c19Key(maxLen))
	case 4: // reset then reuse: only what was added after Reset is written
		b := d.NewBatch()
		if verifNondetBool() {
			b.Set(c19Key(maxLen), c19Val())
		} else {
			b.Delete(c19Key(maxLen)) // a delete-only batch is reset like any other
		}
		b.Reset()
		k, v := c19Key(maxLen), c19Val()
		b.Set(k, v)
		b.Write()
		ref.set(k, v)
	case 5: // no operation
	}
}

func c19CheckLookups(d DB, ref *c19Ref, maxLen int) {
	p := c19Key(maxLen)
	i := ref.find(p)
	got := d.Get(p)
	has := d.Has(p)
	lv, _ := d.Load(p)
	ex, _ := d.Exist(p)
	verifReach("lookups")
	verifAssert(has == (i >= 0), "has-iff-present")
	verifAssert(ex == (i >= 0), "exist-iff-present")
	if i >= 0 {
		verifAssert(bytes.Equal(got, ref.vals[i]), "get-last-written")
		verifAssert(bytes.Equal(lv, ref.vals[i]), "load-last-written")
	} else {
		verifAssert(got == nil, "get-missing-nil")
	}
}

func c19CheckIter(itr Iterator, ks, vs [][]byte, label string) {
	n := 0
	for ; itr.Valid(); itr.Next() {
		if n >= len(ks) {
			verifAssert(false, label+"-no-extra-item")
			return
		}
		verifAssert(bytes.Equal(itr.Key(), ks[n]), label+"-key-order")
		verifAssert(bytes.Equal(itr.Value(), vs[n]), label+"-value")
		n++
		if n > 8 {
			return
		}
	}
	verifAssert(n == len(ks), label+"-no-missing-item")
}

//verif:opt unwind=12 budget_s=1200 thorough.budget_s=3000 split=12 thorough.split=16
func H_C19_memdb_differential() {
	c19KeyTable = nil
	nsel := 12 // pre-state size 0..1 (quick) / 0..2 (thorough) x operation kind 0..5
	maxLen := 1
	if verifThorough() {
		nsel = 18
		maxLen = 2
	}
	sel := verifCase(nsel)
	d := NewMemDB()
	ref := &c19Ref{}
	c19Pre(d, ref, sel/6, maxLen)
	c19Op(d, ref, sel%6, maxLen)
	verifReach("applied")
	switch verifCase(3) {
	case 0:
		c19CheckLookups(d, ref, maxLen)
	case 1:
		start, end := c19Bound(maxLen), c19Bound(maxLen)
		ks, vs := ref.ordered(start, end, false)
		c19CheckIter(d.Iterator(start, end), ks, vs, "forward")
	case 2:
		start, end := c19Bound(maxLen), c19Bound(maxLen)
		ks, vs := ref.ordered(start, end, true)
		c19CheckIter(d.ReverseIterator(start, end), ks, vs, "reverse")
	}
}

// prefix iteration of MemDB = all keys having the prefix, ascending
//verif:opt unwind=12 budget_s=900 split=6
func H_C19_memdb_prefix_iteration() {
	c19KeyTable = nil
	n := verifCase(3)
	d := NewMemDB()
	ref := &c19Ref{}
	c19Pre(d, ref, n, 2)
	pfx := c19Key(2)
	var ks, vs [][]byte
	all, allv := ref.ordered(nil, nil, false)
	for i, k := range all {
		if bytes.HasPrefix(k, pfx) {
			ks = append(ks, k)
			vs = append(vs, allv[i])
		}
	}
	verifReach("prefix")
	c19CheckIter(d.NewIteratorWithPrefix(pfx), ks, vs, "prefix")
}

// prefixDB over a MemDB that also holds a foreign key: same answers as the
// reference, and the foreign key is neither returned nor modified.
//verif:opt unwind=14 budget_s=1200 thorough.budget_s=3000 split=12
func H_C19_prefixdb_differential() {
	c19KeyTable = nil
	sel := verifCase(12) // pre-state size 0..1 x operation kind 0..5
	base := NewMemDB()
	plen := 1
	if verifThorough() {
		plen = 1 + verifCase(2)
	}
	// the prefix slice has spare capacity, as a []byte("p") literal or a slice of a buffer has
	pfx := verifNondetBytes(plen + 2)[:plen]
	// a neighbour of the prefix range in the base DB: one byte, or two (the keys strictly between
	// cpDecr(prefix) and prefix - where a reverse scan with an open end runs into - have two)
	fkl := 1 + verifCase(2)
	fk := verifNondetBytes(fkl)
	foreign := !bytes.HasPrefix(fk, pfx)
	if foreign {
		base.Set(fk, []byte{7})
	}
	pdb := NewPrefixDB(base, pfx)
	ref := &c19Ref{}
	c19Pre(pdb, ref, sel/6, 1)
	c19Op(pdb, ref, sel%6, 1)
	verifReach("applied")
	if foreign {
		verifAssert(bytes.Equal(base.Get(fk), []byte{7}), "foreign-key-untouched")
	}
	switch verifCase(3) {
	case 0:
		c19CheckLookups(pdb, ref, 1)
		// the view's keys live under the prefix in the base DB
		for i, k := range ref.keys {
			verifAssert(bytes.Equal(base.Get(append(append([]byte{}, pfx...), k...)), ref.vals[i]), "stored-under-prefix")
		}
	case 1:
		start, end := c19Bound(1), c19Bound(1)
		ks, vs := ref.ordered(start, end, false)
		c19CheckIter(pdb.Iterator(start, end), ks, vs, "pforward")
	case 2:
		start, end := c19Bound(1), c19Bound(1)
		ks, vs := ref.ordered(start, end, true)
		c19CheckIter(pdb.ReverseIterator(start, end), ks, vs, "preverse")
	}
}

// byte-string helpers for all strings of length <= 3
//verif:opt unwind=8
func H_C19_helpers() {
	c19KeyTable = nil
	n := 1 + verifCase(3)
	b := verifNondetBytes(n)
	inc := cpIncr(b)
	dec := cpDecr(b)
	allFF, all00 := true, true
	for _, x := range b {
		if x != 0xFF {
			allFF = false
		}
		if x != 0 {
			all00 = false
		}
	}
	verifReach("helpers")
	verifAssert((inc == nil) == allFF, "incr-nil-iff-all-ff")
	verifAssert((dec == nil) == all00, "decr-nil-iff-all-00")
	if inc != nil {
		verifAssert(len(inc) == n && bytes.Compare(inc, b) > 0, "incr-greater-same-length")
		verifAssert(bytes.Equal(cpDecr(inc), b), "decr-inverts-incr")
		// nothing of the same length lies strictly between b and inc
		m := verifNondetBytes(n)
		verifAssert(!(bytes.Compare(b, m) < 0 && bytes.Compare(m, inc) < 0), "incr-is-successor")
	}
	if dec != nil {
		verifAssert(len(dec) == n && bytes.Compare(dec, b) < 0, "decr-smaller-same-length")
	}
	// PrefixToEnd: k has prefix b  <=>  b <= k < PrefixToEnd(b)   (nil end = open)
	k := verifNondetBytes(verifCase(5))
	e := PrefixToEnd(b)
	inRange := bytes.Compare(k, b) >= 0 && (e == nil || bytes.Compare(k, e) < 0)
	verifAssert(bytes.HasPrefix(k, b) == inRange, "prefix-to-end-exact")
	verifAssert(IsKeyInDomain(k, b, e, false) == inRange, "domain-forward")
}
