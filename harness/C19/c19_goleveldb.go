//verif:pkg libs/db
package db

import (
	"bytes"

	"github.com/syndtr/goleveldb/leveldb"
	lerrors "github.com/syndtr/goleveldb/leveldb/errors"
	"github.com/syndtr/goleveldb/leveldb/iterator"
	"github.com/syndtr/goleveldb/leveldb/opt"
	"github.com/syndtr/goleveldb/leveldb/storage"
	"github.com/syndtr/goleveldb/leveldb/util"
)

// C19 (LevelDB adapter) — GoLevelDB / goLevelDBBatch / goLevelDBIterator, the repository's own code
// around the third-party engine: sharding of keys over dbCounts engines, the batch wrapper (per-shard
// batches, size accounting, Reset), the iterator's bound handling and reverse positioning.
//
// The engine itself (github.com/syndtr/goleveldb) is the environment: under the solver each
// *leveldb.DB is a sorted association list and each *leveldb.Batch an operation list, with the
// iterator positioning rules of the real dbIter (SOI/EOI, Seek = first key >= target, Prev at EOI =
// Last, Next at SOI = First). In the native replay the REAL engine runs (over its in-memory storage),
// so a counterexample is only reported if the real engine behaves as the model said.
// murmur3.Sum32 (unsafe pointer arithmetic) is re-stated for keys shorter than 4 bytes.

//verif:filestub (*github.com/syndtr/goleveldb/leveldb.DB).Get => stub_c19l_get
//verif:filestub (*github.com/syndtr/goleveldb/leveldb.DB).Put => stub_c19l_put
//verif:filestub (*github.com/syndtr/goleveldb/leveldb.DB).Delete => stub_c19l_delete
//verif:filestub (*github.com/syndtr/goleveldb/leveldb.DB).Write => stub_c19l_write
//verif:filestub (*github.com/syndtr/goleveldb/leveldb.DB).NewIterator => stub_c19l_newiterator
//verif:filestub (*github.com/syndtr/goleveldb/leveldb.Batch).Put => stub_c19l_bput
//verif:filestub (*github.com/syndtr/goleveldb/leveldb.Batch).Delete => stub_c19l_bdelete
//verif:filestub (*github.com/syndtr/goleveldb/leveldb.Batch).Reset => stub_c19l_breset
//verif:filestub github.com/spaolacci/murmur3.Sum32 => stub_c19l_sum32

type c19LModel struct {
	p    *leveldb.DB
	keys [][]byte
	vals [][]byte
}

type c19LOp struct {
	del  bool
	k, v []byte
}

type c19LBatch struct {
	p   *leveldb.Batch
	ops []c19LOp
}

var (
	c19LDBs     []*c19LModel
	c19LBatches []*c19LBatch
)

func c19LFind(p *leveldb.DB) *c19LModel {
	for _, m := range c19LDBs {
		if m.p == p {
			return m
		}
	}
	panic("model: unknown leveldb.DB")
}

func c19LFindBatch(p *leveldb.Batch) *c19LBatch {
	for _, b := range c19LBatches {
		if b.p == p {
			return b
		}
	}
	b := &c19LBatch{p: p}
	c19LBatches = append(c19LBatches, b)
	return b
}

func (m *c19LModel) lowerBound(k []byte) int {
	i := 0
	for i < len(m.keys) && bytes.Compare(m.keys[i], k) < 0 {
		i++
	}
	return i
}

func (m *c19LModel) set(k, v []byte) {
	k, v = append([]byte{}, k...), append([]byte{}, v...)
	i := m.lowerBound(k)
	if i < len(m.keys) && bytes.Equal(m.keys[i], k) {
		m.vals[i] = v
		return
	}
	m.keys = append(m.keys, nil)
	m.vals = append(m.vals, nil)
	copy(m.keys[i+1:], m.keys[i:])
	copy(m.vals[i+1:], m.vals[i:])
	m.keys[i], m.vals[i] = k, v
}

func (m *c19LModel) del(k []byte) {
	i := m.lowerBound(k)
	if i < len(m.keys) && bytes.Equal(m.keys[i], k) {
		m.keys = append(m.keys[:i], m.keys[i+1:]...)
		m.vals = append(m.vals[:i], m.vals[i+1:]...)
	}
}

func stub_c19l_get(db *leveldb.DB, key []byte, ro *opt.ReadOptions) ([]byte, error) {
	m := c19LFind(db)
	i := m.lowerBound(key)
	if i < len(m.keys) && bytes.Equal(m.keys[i], key) {
		return append([]byte{}, m.vals[i]...), nil
	}
	return nil, lerrors.ErrNotFound
}
func stub_c19l_put(db *leveldb.DB, key, value []byte, wo *opt.WriteOptions) error {
	c19LFind(db).set(key, value)
	return nil
}
func stub_c19l_delete(db *leveldb.DB, key []byte, wo *opt.WriteOptions) error {
	c19LFind(db).del(key)
	return nil
}
func stub_c19l_write(db *leveldb.DB, batch *leveldb.Batch, wo *opt.WriteOptions) error {
	m := c19LFind(db)
	for _, op := range c19LFindBatch(batch).ops {
		if op.del {
			m.del(op.k)
		} else {
			m.set(op.k, op.v)
		}
	}
	return nil
}
func stub_c19l_bput(b *leveldb.Batch, key, value []byte) {
	bm := c19LFindBatch(b)
	bm.ops = append(bm.ops, c19LOp{false, append([]byte{}, key...), append([]byte{}, value...)})
}
func stub_c19l_bdelete(b *leveldb.Batch, key []byte) {
	bm := c19LFindBatch(b)
	bm.ops = append(bm.ops, c19LOp{true, append([]byte{}, key...), nil})
}
func stub_c19l_breset(b *leveldb.Batch) { c19LFindBatch(b).ops = nil }

// the engine's iterator over a snapshot: pos -1 = before the first, len = past the last
type c19LIter struct {
	iterator.Iterator
	keys, vals [][]byte
	pos        int
}

func (it *c19LIter) Valid() bool { return it.pos >= 0 && it.pos < len(it.keys) }
func (it *c19LIter) First() bool { it.pos = 0; return it.Valid() }
func (it *c19LIter) Last() bool  { it.pos = len(it.keys) - 1; return it.Valid() }
func (it *c19LIter) Seek(key []byte) bool {
	i := 0
	for i < len(it.keys) && bytes.Compare(it.keys[i], key) < 0 {
		i++
	}
	it.pos = i
	return it.Valid()
}
func (it *c19LIter) Next() bool {
	if it.pos == len(it.keys) {
		return false
	}
	it.pos++
	return it.Valid()
}
func (it *c19LIter) Prev() bool {
	if it.pos == -1 {
		return false
	}
	if it.pos == len(it.keys) {
		return it.Last()
	}
	it.pos--
	return it.Valid()
}
func (it *c19LIter) Key() []byte {
	if !it.Valid() {
		return nil
	}
	return it.keys[it.pos]
}
func (it *c19LIter) Value() []byte {
	if !it.Valid() {
		return nil
	}
	return it.vals[it.pos]
}
func (it *c19LIter) Release()     {}
func (it *c19LIter) Error() error { return nil }

func stub_c19l_newiterator(db *leveldb.DB, slice *util.Range, ro *opt.ReadOptions) iterator.Iterator {
	m := c19LFind(db)
	return &c19LIter{keys: append([][]byte{}, m.keys...), vals: append([][]byte{}, m.vals...), pos: -1}
}

// murmur3.Sum32 for inputs shorter than 4 bytes (no block loop, tail only)
func stub_c19l_sum32(data []byte) uint32 {
	if len(data) >= 4 {
		panic("model: murmur3 of 4+ bytes")
	}
	const c1, c2 = 0xcc9e2d51, 0x1b873593
	var h1, k1 uint32
	switch len(data) {
	case 3:
		k1 ^= uint32(data[2]) << 16
		fallthrough
	case 2:
		k1 ^= uint32(data[1]) << 8
		fallthrough
	case 1:
		k1 ^= uint32(data[0])
		k1 *= c1
		k1 = (k1 << 15) | (k1 >> 17)
		k1 *= c2
		h1 ^= k1
	}
	h1 ^= uint32(len(data))
	h1 ^= h1 >> 16
	h1 *= 0x85ebca6b
	h1 ^= h1 >> 13
	h1 *= 0xc2b2ae35
	h1 ^= h1 >> 16
	return h1
}

func c19NewGoLevelDB(counts uint64) *GoLevelDB {
	g := &GoLevelDB{dbCounts: counts, dbs: make([]*leveldb.DB, counts), dbPaths: make([]string, counts)}
	c19LDBs, c19LBatches = nil, nil
	for i := range g.dbs {
		if verifSymbolic() {
			g.dbs[i] = new(leveldb.DB)
			c19LDBs = append(c19LDBs, &c19LModel{p: g.dbs[i]})
		} else {
			d, err := leveldb.Open(storage.NewMemStorage(), nil)
			if err != nil {
				panic(err)
			}
			g.dbs[i] = d
		}
	}
	return g
}

//verif:opt unwind=12 budget_s=1200 thorough.budget_s=3000 split=12 thorough.split=18
func H_C19_goleveldb_adapter_differential() {
	c19KeyTable = nil
	nsel := 12 // pre-state size 0..1 (quick) / 0..2 (thorough) x operation kind 0..5
	maxLen := 1
	if verifThorough() {
		nsel = 18
		maxLen = 2
	}
	sel := verifCase(nsel)
	d := c19NewGoLevelDB(1)
	ref := &c19Ref{}
	c19Pre(d, ref, sel/6, maxLen)
	c19Op(d, ref, sel%6, maxLen)
	verifReach("leveldb-applied")
	switch verifCase(3) {
	case 0:
		c19CheckLookups(d, ref, maxLen)
	case 1:
		start, end := c19Bound(maxLen), c19Bound(maxLen)
		ks, vs := ref.ordered(start, end, false)
		c19CheckIter(d.Iterator(start, end), ks, vs, "leveldb-forward")
	case 2:
		start, end := c19Bound(maxLen), c19Bound(maxLen)
		ks, vs := ref.ordered(start, end, true)
		c19CheckIter(d.ReverseIterator(start, end), ks, vs, "leveldb-reverse")
	}
}

// the same with keys sharded over two or three engines (db_counts > 1): lookups find every key in its
// shard, and the iterators merge the shards into one ascending (descending) stream without repeats.
// Keys come from a table (quick: empty, 00, 00 00, 00 FF, FF; thorough: eight keys - they fall into
// different shards under murmur3) instead of being symbolic: the shard of a symbolic key is a 32-bit
// multiply-rotate-multiply hash the solvers do not get through in useful time.
//verif:opt unwind=12 budget_s=900 thorough.budget_s=3000 split=24 thorough.split=36
func H_C19_goleveldb_sharded_differential() {
	// quick: "", 00, 00 00, 00 FF, FF lie in shards 0,1,0,0,1 of two
	c19KeyTable = [][]byte{{}, {0x00}, {0x00, 0x00}, {0x00, 0xFF}, {0xFF}}
	nsel := 12
	counts := uint64(2)
	if verifThorough() {
		c19KeyTable = [][]byte{{}, {0x00}, {0x01}, {0x7F}, {0xFF}, {0x00, 0x00}, {0x00, 0xFF}, {0xFF, 0x00}}
		nsel = 18
		counts = uint64(2 + verifCase(2))
	}
	sel := verifCase(nsel)
	d := c19NewGoLevelDB(counts)
	ref := &c19Ref{}
	c19Pre(d, ref, 1+sel/6, 2)
	c19Op(d, ref, sel%6, 2)
	verifReach("sharded-applied")
	switch verifCase(3) {
	case 0:
		c19CheckLookups(d, ref, 2)
	case 1:
		start, end := c19Bound(2), c19Bound(2)
		ks, vs := ref.ordered(start, end, false)
		c19CheckIter(d.Iterator(start, end), ks, vs, "sharded-forward")
	case 2:
		start, end := c19Bound(2), c19Bound(2)
		ks, vs := ref.ordered(start, end, true)
		c19CheckIter(d.ReverseIterator(start, end), ks, vs, "sharded-reverse")
	}
	c19KeyTable = nil
}
