//verif:pkg types
package types

import (
	"bytes"
	"encoding/binary"
	"time"

	"github.com/lianxiangcloud/linkchain/libs/common"
	"github.com/lianxiangcloud/linkchain/libs/crypto"
)

// C04 — a validator key never signs conflicting payloads, across restarts.
// One inductive step of the real signVote/signProposal/checkHRS/saveSigned from an arbitrary
// state that equals the durable record (what LoadFilePV establishes).
//
// Environment: (*FilePV).save records the durable record (ghost disk) from the receiver's fields;
// sign-bytes are an explicit injective byte encoding whose last 8 bytes are the timestamp;
// the "only differ by timestamp" helpers compare everything but those 8 bytes; the private
// key signs deterministically through an uninterpreted function.

//verif:filestub (*github.com/lianxiangcloud/linkchain/types.FilePV).save => stub_c04_save
//verif:filestub (*github.com/lianxiangcloud/linkchain/types.Vote).SignBytes => stub_c04_votebytes
//verif:filestub (*github.com/lianxiangcloud/linkchain/types.Proposal).SignBytes => stub_c04_proposalbytes
//verif:filestub github.com/lianxiangcloud/linkchain/types.checkVotesOnlyDifferByTimestamp => stub_c04_onlyts
//verif:filestub github.com/lianxiangcloud/linkchain/types.checkProposalsOnlyDifferByTimestamp => stub_c04_onlyts

type c04Record struct {
	height    uint64
	round     int
	step      int8
	signBytes []byte
	sig       crypto.Signature
}

var (
	c04Disk     c04Record
	c04Saves    int
	c04Released func() bool // is the signature of the current request already handed out?
)

func stub_c04_save(pv *FilePV) {
	// the durable record is written from the receiver's fields (pv.pv in saveSigned)
	c04Disk = c04Record{pv.LastHeight, pv.LastRound, pv.LastStep, pv.LastSignBytes, pv.LastSignature}
	c04Saves++
	verifAssert(c04Released == nil || !c04Released(), "durable-before-signature-is-handed-out")
}

func c04Encode(kind byte, chain string, height uint64, round int, typ byte, block byte, polRound int, ts time.Time) []byte {
	b := []byte{kind, typ, block}
	var u [8]byte
	binary.BigEndian.PutUint64(u[:], height)
	b = append(b, u[:]...)
	binary.BigEndian.PutUint64(u[:], uint64(round))
	b = append(b, u[:]...)
	binary.BigEndian.PutUint64(u[:], uint64(polRound))
	b = append(b, u[:]...)
	b = append(b, byte(len(chain)))
	b = append(b, chain...)
	binary.BigEndian.PutUint64(u[:], uint64(ts.Unix()))
	return append(b, u[:]...)
}

func stub_c04_votebytes(v *Vote, chainID string) []byte {
	return c04Encode(1, chainID, v.Height, v.Round, v.Type, v.BlockID.Hash[0], 0, v.Timestamp)
}
func stub_c04_proposalbytes(p *Proposal, chainID string) []byte {
	return c04Encode(2, chainID, p.Height, p.Round, 0, p.BlockPartsHeader.Hash[0], p.POLRound, p.Timestamp)
}
func stub_c04_onlyts(last, cur []byte) (time.Time, bool) {
	if len(last) < 8 || len(cur) != len(last) {
		return time.Time{}, false
	}
	ts := time.Unix(int64(binary.BigEndian.Uint64(last[len(last)-8:])), 0)
	return ts, bytes.Equal(last[:len(last)-8], cur[:len(cur)-8])
}

type c04Key struct{}

func (c04Key) Bytes() []byte { return []byte{1} }
func (c04Key) Sign(msg []byte) (crypto.Signature, error) {
	var s crypto.SignatureEd25519
	copy(s[:], verifUFBytes("sign", 64, msg))
	return s, nil
}
func (c04Key) PubKey() crypto.PubKey          { return crypto.PubKeyEd25519{1} }
func (c04Key) Equals(o crypto.PrivKey) bool   { _, ok := o.(c04Key); return ok }

// whole seconds: time.Unix/UnixNano with nanoseconds divide and multiply by 10^9, a kernel no
// back end decides at 64 bits; the timestamp only has to be an arbitrary comparable instant here
func c04Time() time.Time {
	s := verifNondetInt64()
	verifAssume(s >= 0 && s < 1<<40)
	return time.Unix(s, 0)
}

func c04Less(h1 uint64, r1 int, s1 int8, h2 uint64, r2 int, s2 int8) bool {
	if h1 != h2 {
		return h1 < h2
	}
	if r1 != r2 {
		return r1 < r2
	}
	return s1 < s2
}

func c04SameButTimestamp(a, b []byte) bool {
	return len(a) == len(b) && len(a) >= 8 && bytes.Equal(a[:len(a)-8], b[:len(b)-8])
}

// c04State builds an arbitrary FilePV whose memory equals the durable record.
func c04State() *FilePV {
	pv := &FilePV{PrivKey: c04Key{}, filePath: "pv.json"}
	if verifNondetBool() {
		// something was signed before: an arbitrary earlier vote or proposal at (H,R,S)
		h, r := verifNondetUint64(), verifNondetInt()
		var sb []byte
		var step int8
		switch verifCase(3) {
		case 0:
			step = stepPropose
			sb = c04Encode(2, "chain", h, r, 0, verifNondetByte(), verifNondetInt(), c04Time())
		case 1:
			step = stepPrevote
			sb = c04Encode(1, "chain", h, r, VoteTypePrevote, verifNondetByte(), 0, c04Time())
		case 2:
			step = stepPrecommit
			sb = c04Encode(1, "chain", h, r, VoteTypePrecommit, verifNondetByte(), 0, c04Time())
		}
		sig, _ := pv.PrivKey.Sign(sb)
		pv.LastHeight, pv.LastRound, pv.LastStep, pv.LastSignBytes, pv.LastSignature = h, r, step, sb, sig
	}
	if verifNondetBool() {
		pv.pv = pv.Copy() // as after LoadFilePV; nil as after GenFilePV
	}
	c04Disk = c04Record{pv.LastHeight, pv.LastRound, pv.LastStep, pv.LastSignBytes, pv.LastSignature}
	c04Saves = 0
	return pv
}

func c04MemEqualsDisk(pv *FilePV) bool {
	ok := pv.LastHeight == c04Disk.height && pv.LastRound == c04Disk.round && pv.LastStep == c04Disk.step &&
		bytes.Equal(pv.LastSignBytes, c04Disk.signBytes) && pv.LastSignature == c04Disk.sig
	if pv.pv != nil {
		ok = ok && pv.pv.LastHeight == c04Disk.height && pv.pv.LastRound == c04Disk.round && pv.pv.LastStep == c04Disk.step &&
			bytes.Equal(pv.pv.LastSignBytes, c04Disk.signBytes) && pv.pv.LastSignature == c04Disk.sig
	}
	return ok
}

// c04Judge checks one request's outcome against the durable record before (old) and after.
func c04Judge(pv *FilePV, old c04Record, h uint64, r int, step int8, err error, reqBytes, outBytes []byte, sig crypto.Signature) {
	verifReach("returned")
	if err != nil {
		verifAssert(sig == nil, "refused-request-releases-nothing")
		verifAssert(c04Saves == 0 && c04MemEqualsDisk(pv), "refused-request-leaves-record")
		return
	}
	verifReach("signed")
	verifAssert(sig != nil, "signed-request-has-signature")
	verifAssert(!c04Less(h, r, step, old.height, old.round, old.step), "lower-height-round-step-refused")
	same := h == old.height && r == old.round && step == old.step
	if same {
		verifReach("same-hrs")
		verifAssert(old.signBytes != nil && sig == old.sig, "repeat-returns-original-signature")
		verifAssert(c04SameButTimestamp(outBytes, old.signBytes), "repeat-only-for-same-payload-up-to-timestamp")
		verifAssert(bytes.Equal(outBytes, old.signBytes), "repeat-carries-original-timestamp")
		verifAssert(c04Saves == 0, "repeat-does-not-rewrite-record")
	} else {
		verifReach("advanced")
		verifAssert(c04Saves == 1, "advance-persists-once")
		verifAssert(c04Disk.height == h && c04Disk.round == r && c04Disk.step == step, "record-has-new-height-round-step")
		verifAssert(bytes.Equal(c04Disk.signBytes, reqBytes) && c04Disk.sig == sig, "record-has-released-payload-and-signature")
		verifAssert(bytes.Equal(outBytes, reqBytes), "advance-signs-the-request-unchanged")
	}
	verifAssert(c04MemEqualsDisk(pv), "memory-equals-durable-record-after-call")
}

//verif:opt unwind=70 budget_s=900 split=16
func H_C04_sign_vote_step() {
	pv := c04State()
	old := c04Disk
	v := &Vote{Height: verifNondetUint64(), Round: verifNondetInt(), Timestamp: c04Time(),
		BlockID: BlockID{Hash: common.Hash{verifNondetByte()}}}
	if verifNondetBool() {
		v.Type = VoteTypePrevote
	} else {
		v.Type = VoteTypePrecommit
	}
	chain := "chain"
	if verifNondetBool() {
		chain = "other"
	}
	req := v.SignBytes(chain)
	c04Released = func() bool { return v.Signature != nil }
	err := pv.SignVote(chain, v)
	c04Judge(pv, old, v.Height, v.Round, voteToStep(v), err, req, v.SignBytes(chain), v.Signature)
}

//verif:opt unwind=70 budget_s=900 split=16
func H_C04_sign_proposal_step() {
	pv := c04State()
	old := c04Disk
	p := &Proposal{Height: verifNondetUint64(), Round: verifNondetInt(), Timestamp: c04Time(), POLRound: verifNondetInt(),
		BlockPartsHeader: PartSetHeader{Total: 1, Hash: []byte{verifNondetByte()}}}
	chain := "chain"
	if verifNondetBool() {
		chain = "other"
	}
	req := p.SignBytes(chain)
	c04Released = func() bool { return p.Signature != nil }
	err := pv.SignProposal(chain, p)
	c04Judge(pv, old, p.Height, p.Round, stepPropose, err, req, p.SignBytes(chain), p.Signature)
}
