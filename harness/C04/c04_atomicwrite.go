//verif:pkg libs/common
package common

import (
	"bytes"
	"io/ioutil"
	"os"
)

// C04 (persistence of the last-signed record) — FilePV.save hands the record to WriteFileAtomic and
// treats any error as fatal (it panics before the signature leaves the signer). That only protects
// against double signing after a restart if WriteFileAtomic tells the truth: it reports success only
// when the file holds the new record, and a write that did not go through is reported and leaves the
// previous record in place.
//
// The file system is the engine's path-keyed model (OpenFile/Write/Close/Rename/Remove/ReadFile);
// the fault is "the device takes no more data" for every write during the call (natively:
// RLIMIT_FSIZE = 0, the kernel answers EFBIG) - so the counterexample replays against the real kernel.

//verif:filestub github.com/lianxiangcloud/linkchain/libs/common.RandStr => stub_c04w_randstr

func stub_c04w_randstr(length int) string { return "RANDOMNAME" }

//verif:opt unwind=12 budget_s=300
func H_C04_write_file_atomic_tells_the_truth() {
	dir := "/verif-model-dir"
	if !verifSymbolic() {
		d, err := ioutil.TempDir("", "verif-c04w")
		if err != nil {
			panic(err)
		}
		defer os.RemoveAll(d)
		dir = d
	}
	path := dir + "/priv_validator.json"
	old := []byte{'o', verifNondetByte()}
	if err := ioutil.WriteFile(path, old, 0600); err != nil {
		panic(err)
	}
	data := []byte{'n', verifNondetByte(), verifNondetByte()}
	fault := verifNondetBool()
	if fault {
		verifFaultWrites(true)
	}
	err := WriteFileAtomic(path, data, 0600)
	verifFaultWrites(false)
	got, rerr := ioutil.ReadFile(path)
	verifReach("written")
	verifAssert(rerr == nil, "the-record-file-is-still-there")
	if err == nil {
		verifAssert(bytes.Equal(got, data), "success-means-the-new-record-is-on-disk")
	} else {
		verifReach("write-failure-reported")
		verifAssert(bytes.Equal(got, old), "a-reported-failure-leaves-the-previous-record")
	}
	verifAssert(!fault || err != nil, "a-write-that-did-not-go-through-is-reported")
}
