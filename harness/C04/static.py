# static obligations for C04, regenerated from /repo on each run (go/ssa call graph over the whole program)
import sys, os
sys.path.insert(0, os.path.join(os.path.dirname(os.path.abspath(__file__)), '..', '..', 'engine'))
from symgo.server import Server
from symgo.run import REPO

M = 'github.com/lianxiangcloud/linkchain'


def run(tier, workdir):
    srv = Server(['./cmd/...', './node/...', './consensus/...', './types/...'], repo=REPO)
    try:
        r = srv.req(op='callers', prefix=M, target='(*%s/types.FilePV).SignVoteWithoutSave' % M,
                    method='SignVoteWithoutSave')
        callers = r.get('callers') or []
        # signVote(save=false) signs without recording: only the exported wrapper may call it that way
        r2 = srv.req(op='callers', prefix=M, target='(*%s/types.FilePV).signVote' % M, method='')
        c2 = sorted(set(r2.get('callers') or []))
        want = sorted(['(*%s/types.FilePV).SignVote' % M, '(*%s/types.FilePV).SignVoteWithoutSave' % M])
        return [
            dict(name='no-non-test-caller-of-SignVoteWithoutSave', ok=(len(callers) == 0), detail=callers,
                 kind='ssa-callgraph'),
            dict(name='signVote-only-called-by-its-two-wrappers', ok=(c2 == want), detail=c2, kind='ssa-callgraph'),
        ]
    finally:
        srv.close()
