#!/usr/bin/env python3
# regenerates /verif/MANIFEST.json from /verif/manifest_src.json (claims) + properties.jsonl
import json, os
V = os.path.dirname(os.path.dirname(os.path.abspath(__file__)))
src = json.load(open(os.path.join(V, 'manifest_src.json')))
props = [json.loads(l) for l in open(os.path.join(V, 'properties.jsonl'))]
checks, na = [], []
for p in props:
    pid = p['id']
    c = src['claims'].get(pid)
    if c and os.path.isdir(os.path.join(V, 'harness', pid)):
        checks.append(dict(
            property_id=pid,
            quick_cmd='bin/check %s --tier quick' % pid,
            thorough_cmd='bin/check %s --tier thorough' % pid,
            evidence_file='/verif/evidence/%s.json' % pid,
            replay_cmd_template='bin/check %s --replay {path}' % pid,
            engine='symgo',
            level_claimed=dict(category='model_checking', text=c['text'], design_ref=c.get('design_ref', '§3 ' + pid)),
            level_note=c['note'],
            technique='bounded symbolic execution of go/ssa of the real functions + SMT (z3 5.1 deciding, z3 4.8.12 and cvc5 cross-check), native replay of every counterexample',
        ))
    else:
        na.append(dict(property_id=pid, reason=src['not_applicable'].get(pid, 'no solver-based check built yet for this property in this session; nothing is claimed')))
m = dict(
    version=1,
    setup_cmd='sh /verif/bin/setup',
    hooks=dict(guard='verif', enable='none needed: harnesses are injected with go/packages Overlay and go test -overlay; no file under /repo is modified',
               baseline_off_cmd=src['baseline_off_cmd'], source_commits=[], add_only=True),
    engines=[dict(name='symgo', path='/verif/engine', serves_properties=[c['property_id'] for c in checks],
                  kind_free_text='go/ssa -> SMT bounded symbolic executor (ssaserve in Go, symgo in Python over z3), overlay harnesses, native replay')],
    checks=checks,
    not_applicable=na,
    notes=src.get('notes', ''),
)
json.dump(m, open(os.path.join(V, 'MANIFEST.json'), 'w'), indent=1)
print('checks:', [c['property_id'] for c in checks], 'n/a:', len(na))
