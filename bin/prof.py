import sys, time, cProfile, pstats, faulthandler
import os
faulthandler.dump_traceback_later(int(os.environ.get('PROF_DUMP_S','230')), exit=True)
sys.path.insert(0,'/verif/engine')
from symgo import run
from symgo.server import Server
from symgo.explore import Executor
pkg, hf, name, budget = sys.argv[1], sys.argv[2], sys.argv[3], int(sys.argv[4])
extra = dict(kv.split('=') for kv in sys.argv[5:])
hfs = hf.split(","); hf = hfs[0]
ov = run.make_overlay("/verif/.work/adhoc", pkg, hfs)
srv = Server(['./'+pkg], overlay=ov)
hs = {n:(o,s) for n,o,s in run.parse_harnesses(hf)}
o,s = hs[name]
o['budget_s']=budget
for k,v in extra.items(): o[k]=int(v)
o['fork_sites']={}
ex = Executor(srv, o)
ex.stubs={k:run.qualify(pkg,v) for k,v in s.items()}
pr=cProfile.Profile(); pr.enable()
t=time.time()
try:
    ex.run_harness(run.MODULE+'/'+pkg+'.'+name, budget_s=budget)
except KeyboardInterrupt: pass
pr.disable()
print('wall',time.time()-t, ex.stats, dict(ex.ends), ex.inconclusive[:3])
for k,a in ex.asserts.items(): print(k, {x:y for x,y in a.items() if x!='violations'}, len(a['violations']))
print(sorted(o['fork_sites'].items(), key=lambda x:-x[1])[:14])
