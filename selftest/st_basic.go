package common

// self-test harnesses for the engine (injected into libs/common)

func stAbs(x int64) int64 {
	if x < 0 {
		return -x
	}
	return x
}

func H_ST_abs() {
	x := verifNondetInt64()
	verifAssume(x != -9223372036854775808)
	y := stAbs(x)
	verifReach("after")
	verifAssert(y >= 0, "abs-nonneg")
}

func H_ST_abs_bad() {
	x := verifNondetInt64()
	y := stAbs(x)
	verifAssert(y >= 0, "abs-nonneg-bad") // fails for MinInt64
}

func H_ST_slice() {
	n := verifNondetInt()
	verifAssume(n >= 0 && n <= 4)
	s := make([]byte, n)
	for i := range s {
		s[i] = verifNondetByte()
	}
	var sum int
	for _, b := range s {
		sum += int(b)
	}
	verifReach("summed")
	verifAssert(sum <= 4*255, "sum-bound")
	i := verifNondetInt()
	_ = s[i] // may panic: index out of range
}

func H_ST_map() {
	m := map[string]int{}
	k := verifNondetBytes(2)
	m[string(k)] = 1
	m["ab"] = 2
	verifAssert(len(m) >= 1 && len(m) <= 2, "map-size")
	if len(m) == 1 {
		verifReach("collide")
		verifAssert(k[0] == 'a' && k[1] == 'b', "collide-means-equal")
	}
	tot := 0
	for _, v := range m {
		tot += v
	}
	verifAssert(tot == 2 || tot == 3, "tot")
}

func H_ST_bitarray() {
	bits := verifNondetInt()
	verifAssume(bits >= 0 && bits <= 130)
	ba := NewBitArray(bits)
	i := verifNondetInt()
	ok := ba.SetIndex(i, true)
	verifReach("set")
	if ok {
		verifAssert(ba.GetIndex(i), "set-get")
	} else {
		verifAssert(i < 0 || i >= bits, "set-fail-oob")
	}
}

type stShape interface{ Area() int }
type stSq struct{ s int }
type stRect struct{ w, h int }

func (s stSq) Area() int    { return s.s * s.s }
func (r *stRect) Area() int { return r.w * r.h }

func H_ST_iface() {
	var sh stShape
	if verifNondetBool() {
		sh = stSq{3}
	} else {
		sh = &stRect{2, 5}
	}
	a := sh.Area()
	verifAssert(a == 9 || a == 10, "area")
	_, isSq := sh.(stSq)
	verifAssert(isSq == (a == 9), "assert-type")
}

func stRecover(i int, s []int) (r int, err error) {
	defer func() {
		if e := recover(); e != nil {
			r = -1
		}
	}()
	return s[i], nil
}

func H_ST_recover() {
	s := []int{1, 2, 3}
	i := verifNondetInt()
	r, _ := stRecover(i, s)
	verifReach("ret")
	verifAssert((r == -1) == (i < 0 || i >= 3), "recovered-iff-oob")
}
