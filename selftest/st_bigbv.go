package common

import "math/big"

// self-test of the bit-vector backed math/big model (//verif:opt big_bv=1): every probe below is an
// assertion the solver must REFUTE with concrete operands ("this operation never yields that value"),
// and the native replay must fail the same assertion with them - so a wrong model shows up either as
// a proof where a counterexample exists or as a counterexample that does not reproduce.

var stTT256 = new(big.Int).Lsh(big.NewInt(1), 256)
var stTT256m1 = new(big.Int).Sub(stTT256, big.NewInt(1))

//verif:opt big_bv=1 unwind=70
func H_ST_bigbv_words() {
	a, b := verifNondetUint64(), verifNondetUint64()
	x, y := new(big.Int).SetUint64(a), new(big.Int).SetUint64(b)
	s := new(big.Int).Add(x, y)
	if s.BitLen() > 64 {
		verifReach("sum-wide")
		verifAssert(!s.IsUint64(), "wide-is-not-uint64")
		verifAssert(len(s.Bytes()) == 9, "wide-has-nine-bytes")
	} else {
		verifReach("sum-narrow")
		verifAssert(s.Uint64() == a+b, "narrow-sum-is-the-machine-sum")
	}
	verifAssert(s.Uint64() != 0x1122334455667788 || a != 0xFFFFFFFFFFFFFFFF, "probe-low-word-of-wide-sum")
	d := new(big.Int).Sub(x, y)
	if d.Sign() < 0 {
		verifReach("difference-negative")
		verifAssert(d.Uint64() == b-a, "uint64-of-negative-is-low-word-of-magnitude")
		verifAssert(d.Int64() == int64(a-b), "int64-of-negative-wraps")
		m := new(big.Int).And(d, stTT256m1) // two's complement view, as the EVM's U256
		verifAssert(m.Sign() > 0, "masked-negative-is-positive")
		verifAssert(new(big.Int).Sub(m, d).Cmp(stTT256) == 0, "mask-adds-two-to-the-256")
		verifAssert(d.Uint64() != 77, "probe-uint64-of-negative")
		verifAssert(m.Bit(255) == 1 && m.Bit(0) == uint((a-b)&1), "bits-of-masked-negative")
	}
	verifAssert(new(big.Int).SetBytes(s.Bytes()).Cmp(s) == 0, "bytes-roundtrip")
	verifAssert(d.CmpAbs(x) <= 0 || d.Sign() < 0, "difference-magnitude")
	n := new(big.Int).Neg(d)
	verifAssert(new(big.Int).Add(n, d).Sign() == 0, "neg-is-additive-inverse")
	verifAssert(new(big.Int).Abs(d).Sign() >= 0, "abs-nonneg")
	verifAssert(new(big.Int).Not(d).Cmp(new(big.Int).Sub(n, big.NewInt(1))) == 0, "not-is-minus-x-minus-one")
}

//verif:opt big_bv=1 unwind=70
func H_ST_bigbv_division() {
	a := int64(verifNondetInt16())
	b := int64(verifNondetInt8())
	x, y := big.NewInt(a), big.NewInt(b)
	if b == 0 {
		return
	}
	q, r := new(big.Int).Div(x, y), new(big.Int).Mod(x, y)
	verifAssert(r.Sign() >= 0 && r.CmpAbs(y) < 0, "euclidean-remainder-range")
	tq, tr := new(big.Int).Quo(x, y), new(big.Int).Rem(x, y)
	verifAssert(!(a == -7 && b == 2) || (tq.Int64() == -3 && tr.Int64() == -1), "truncated-minus-seven-by-two")
	verifAssert(!(a == 7 && b == -2) || (tq.Int64() == -3 && tr.Int64() == 1 && q.Int64() == -3 && r.Int64() == 1), "seven-by-minus-two")
	verifAssert(tq.Int64() != 41 || b != -3, "probe-truncated-quotient")
	verifAssert(tr.Int64() != -2 || b != 5, "probe-truncated-remainder")
	verifAssert(!(a == -7 && b == 2) || (q.Int64() == -4 && r.Int64() == 1), "minus-seven-by-two")
	verifAssert(q.Int64() != -1000 || b != 3, "probe-euclidean-quotient")
	verifAssert(r.Int64() != 5 || b != -7 || a >= 0, "probe-euclidean-remainder-negative-operands")
	if a < 0 && b > 0 && tr.Sign() != 0 {
		verifReach("floor-differs-from-truncation")
		verifAssert(q.Cmp(tq) < 0, "floor-below-truncation")
	}
}

//verif:opt big_bv=1 unwind=70
func H_ST_bigbv_shifts_and_bytes() {
	raw := verifNondetBytes(5)
	x := new(big.Int).SetBytes(raw)
	verifAssert(x.Sign() >= 0 && x.BitLen() <= 40, "five-bytes-fit-forty-bits")
	l := new(big.Int).Lsh(x, 70)
	verifAssert(l.BitLen() == x.BitLen()+70 || x.Sign() == 0, "lsh-adds-bits")
	verifAssert(new(big.Int).Rsh(l, 70).Cmp(x) == 0, "rsh-inverts-lsh")
	bs := x.Bytes()
	verifAssert(len(bs) <= 5 && (len(bs) == 0 || bs[0] != 0), "bytes-are-minimal")
	if len(bs) == 3 {
		verifReach("three-byte-value")
		verifAssert(raw[0] == 0 && raw[1] == 0 && raw[2] == bs[0], "leading-zero-bytes-dropped")
	}
	verifAssert(x.Uint64() != 0x0102030405, "probe-setbytes-is-big-endian")
	m := new(big.Int).Mul(x, big.NewInt(3))
	verifAssert(m.BitLen() <= 42 && m.Cmp(x) >= 0, "triple-fits-forty-two-bits")
	verifAssert(m.Uint64() != 0x300000003, "probe-product")
	verifAssert(new(big.Int).Rsh(big.NewInt(-5), 1).Int64() == -3, "rsh-of-negative-floors")
	n := new(big.Int).Neg(x)
	if x.Sign() > 0 {
		verifAssert(new(big.Int).Rsh(n, 1).Cmp(new(big.Int).Neg(new(big.Int).Rsh(new(big.Int).Add(x, big.NewInt(1)), 1))) == 0, "rsh-negative-symbolic-floors")
	}
	o := new(big.Int).Or(x, big.NewInt(1))
	verifAssert(o.Bit(0) == 1 && new(big.Int).Xor(o, x).Cmp(big.NewInt(1)) <= 0, "or-xor-low-bit")
}
